#!/usr/bin/env python3
"""tools/mutate.py <mutations.json> [name-filter] : sensitivity testing.
Each mutation is applied to a scratch git worktree of /repo (never to /repo),
compiled, optionally run through the repository's own test suite, and the
named checks are run against the worktree (VERIF_REPO). Results are appended to
tools/mutation_results.jsonl. Worktrees are removed afterwards."""
import json, os, subprocess, sys, shutil, time, tempfile
from concurrent.futures import ThreadPoolExecutor
import threading
SUITE_LOCK = threading.Lock()  # the repository's tests use fixed directories under /tmp
VERIF = os.path.dirname(os.path.dirname(os.path.abspath(__file__)))
ENV = dict(os.environ, GOFLAGS="-mod=mod", GOPROXY="off", GOSUMDB="off", GOTOOLCHAIN="local")

def sh(cmd, **kw):
    return subprocess.run(cmd, shell=True, capture_output=True, text=True, env=kw.pop("env", ENV), **kw)

def one(m, budget):
    name = m["name"]
    wt = "/tmp/mut-" + name
    sh("git -C /repo worktree remove --force %s" % wt)
    r = sh("git -C /repo worktree add --detach %s HEAD" % wt)
    res = dict(name=name, props=m["props"], time=time.strftime("%H:%M:%S"))
    try:
        if "patch" in m:
            r = sh("git -C %s apply %s" % (wt, m["patch"]))
            if r.returncode: res["error"] = "patch: " + r.stderr; return res
        else:
            p = os.path.join(wt, m["file"]); s = open(p).read()
            if s.count(m["old"]) != 1:
                res["error"] = "pattern count %d" % s.count(m["old"]); return res
            open(p, "w").write(s.replace(m["old"], m["new"]))
        r = sh("go build ./... ", cwd=wt)
        if r.returncode: res["error"] = "compile: " + r.stderr[-500:]; return res
        if m.get("suite", True):
            with SUITE_LOCK:
                r = sh("flock /tmp/csvq-suite.lock go test -vet=off -count=1 -p 1 ./... 2>&1 | grep -v '^ok\\|no test files'", cwd=wt)
            res["suite_passes"] = (r.stdout.strip() == "")
            if not res["suite_passes"]: res["suite_output"] = r.stdout[-600:]
        res["checks"] = {}
        for prop in m["props"]:
            rd = tempfile.mkdtemp(prefix="mutreplay-")
            env = dict(ENV, VERIF_REPO=wt, VERIF_REPLAY_DIR=rd)
            t0 = time.time()
            r = sh("%s/vcheck %s --no-evidence --budget %d --workers %d" % (VERIF, prop, budget, m.get("workers", 6)), env=env)
            sigs = [l.split("signature: ")[1] for l in r.stdout.splitlines() if "signature: " in l]
            res["checks"][prop] = dict(rc=r.returncode, wall=round(time.time() - t0, 1), sigs=sigs[:5], tail=(r.stderr[-400:] if r.returncode == 2 else ""))
            shutil.rmtree(rd, ignore_errors=True)
    finally:
        sh("git -C /repo worktree remove --force %s" % wt)
        shutil.rmtree(wt, ignore_errors=True)
    return res

def main():
    muts = json.load(open(sys.argv[1]))
    flt = sys.argv[2] if len(sys.argv) > 2 else ""
    budget = int(os.environ.get("MUT_BUDGET", "20"))
    muts = [m for m in muts if flt in m["name"]]
    with ThreadPoolExecutor(max_workers=int(os.environ.get("MUT_PAR", "2"))) as ex:
        for res in ex.map(lambda m: one(m, budget), muts):
            with open(os.path.join(VERIF, "tools", "mutation_results.jsonl"), "a") as f:
                f.write(json.dumps(res) + "\n")
            print(json.dumps(res)[:600], flush=True)

main()
