#!/bin/bash
# tools/regress_all.sh [filter] : runs, for every seeded change under /verif/seeded, the first check that is
# recorded as catching it (caught_by[0]) against a scratch worktree with the patch applied; prints one line per
# seed and a summary of the ones no longer caught. Results are appended to tools/mutation_results.jsonl.
cd /verif
python3 - "$1" > /tmp/regress-all.json <<'PY'
import json,glob,os,sys
flt=sys.argv[1] if len(sys.argv)>1 else ''
out=[]
for d in sorted(glob.glob('/verif/seeded/*')):
    m=d+'/meta.json'; p=d+'/patch.diff'
    if not (os.path.exists(m) and os.path.exists(p)): continue
    if flt and flt not in d: continue
    meta=json.load(open(m)); cb=meta.get('caught_by') or []
    name=os.path.basename(d)
    if name.startswith('benign') or not cb: continue
    out.append({"name":name,"props":[cb[0]],"patch":p,"suite":False})
print(json.dumps(out))
PY
MUT_PAR=${MUT_PAR:-3} MUT_BUDGET=${MUT_BUDGET:-40} python3 tools/mutate.py /tmp/regress-all.json | python3 -c "
import sys,json
miss=[]
for l in sys.stdin:
    try: r=json.loads(l)
    except Exception: 
        print('??', l[:200]); continue
    st={p:c['rc'] for p,c in r.get('checks',{}).items()}
    print(r['name'], r.get('error','')[:100], st, flush=True)
    if r.get('error') or any(v!=1 for v in st.values()): miss.append(r['name'])
print('NOT CAUGHT / ERROR:', miss)
"
