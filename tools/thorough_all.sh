#!/bin/bash
# runs the thorough tier of every check once (sequentially) and prints one summary line per check
for p in ${1:-C01 C08 C09 C10 C11 C12 C13 C14 C19 C20}; do
  out=$(./vcheck $p --tier thorough ${2:-} 2>&1); rc=$?
  echo "prop=$p rc=$rc $(echo "$out" | grep -E -A3 "thorough:|VIOLATION|INFRA|stuck" | head -8 | tr '\n' ' ' | cut -c1-1500)"
done
