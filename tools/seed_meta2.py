#!/usr/bin/env python3
"""tools/seed_meta2.py <id> <property> <what> <needs> <demo cmd> [history] : writes /verif/seeded/<id>/meta.json.
checks_run = union of the LAST result per property in tools/mutation_results.jsonl for that id; first_run = the first
result per property when it differs (a check that missed the change at first)."""
import json, sys
sid, prop, what, needs, demo = sys.argv[1:6]
history = sys.argv[6] if len(sys.argv) > 6 else ""
first, last = {}, {}
for l in open("/verif/tools/mutation_results.jsonl"):
    r = json.loads(l)
    if r["name"] != sid: continue
    for p, c in (r.get("checks") or {}).items():
        first.setdefault(p, c); last[p] = c
meta = {
 "id": sid, "breaks_property": prop,
 "author": "independent sub-agent (saw only the property text incl. anchors, the list of mechanisms used by earlier changes, and a scratch worktree)",
 "what": what, "needs_to_manifest": needs, "demonstration": demo,
 "confirmed_by_me": "tools/seed_confirm.sh: existing suite passes with the change; demonstration fails with it and passes without it (logs next to this file)",
 "checks_run": last, "caught_by": sorted(p for p, c in last.items() if c["rc"] == 1),
}
missed = {p: c for p, c in first.items() if c["rc"] == 0 and last[p]["rc"] == 1}
if history: meta["history"] = history
if missed: meta["first_run"] = missed
json.dump(meta, open("/verif/seeded/%s/meta.json" % sid, "w"), indent=1)
print(sid, "caught_by", meta["caught_by"], "first missed by", sorted(missed))
