#!/bin/bash
# tools/seed_confirm.sh <id> <worktree> <demo dir name> <demo command...>
# Confirms a seeded change written by a sub-agent: suite passes with it, the
# demonstration fails with it and passes without it. Copies patch + demo to
# /verif/seeded/<id>/ and prints a summary line.
id=$1; wt=$2; demo=$3; shift 3
export GOFLAGS=-mod=mod GOPROXY=off GOSUMDB=off
cd "$wt" || exit 9
git diff -- . ":!$demo" ':!CHANGE.diff' ':!REPORT.md' > /tmp/seed-$id.diff
[ -s /tmp/seed-$id.diff ] || { echo "no change in $wt"; exit 9; }
go build ./... || { echo "BUILD FAILS"; exit 1; }
suite=$(flock /tmp/csvq-suite.lock go test -vet=off -count=1 -p 1 $(go list ./... | grep -v "/$demo") 2>&1 | grep -v '^ok\|no test files')
if [ -n "$suite" ]; then echo "SUITE FAILS WITH CHANGE: $suite" | head -5; suite_ok=false; else suite_ok=true; fi
( "$@" ) > /tmp/seed-$id.with.log 2>&1; rc_with=$?
# (not git stash: the stash is shared between all worktrees of a repository)
git apply -R /tmp/seed-$id.diff
( "$@" ) > /tmp/seed-$id.without.log 2>&1; rc_without=$?
git apply /tmp/seed-$id.diff
mkdir -p /verif/seeded/$id
cp /tmp/seed-$id.diff /verif/seeded/$id/patch.diff
rm -rf /verif/seeded/$id/demo; cp -r "$wt/$demo" /verif/seeded/$id/demo
tail -c 1500 /tmp/seed-$id.with.log > /verif/seeded/$id/demo_with_change.log
tail -c 800 /tmp/seed-$id.without.log > /verif/seeded/$id/demo_without_change.log
echo "id=$id suite_passes=$suite_ok demo_rc_with_change=$rc_with demo_rc_without_change=$rc_without"
