#!/usr/bin/env python3
"""tools/automut.py <seed> <count> [file-filter] : systematic sensitivity sampling.

Draws <count> single-line mutants (seeded) from the files csvq's claimed
properties are anchored in, applies each to a scratch worktree of /repo (never to
/repo), and classifies it:

  nocompile      does not build
  suite-killed   the repository's own test suite (unedited) fails -> not the
                 kind of change the checks are for
  caught         suite passes, at least one of the mapped checks exits 1
  survived       suite passes, every mapped check exits 0 (to be analysed:
                 equivalent mutant, or a gap)
  infra          a check exited 2

Results are appended to tools/automut_results.jsonl. Operators: negate an if
condition, swap && / ||, swap == / !=, swap < / <=, true <-> false, drop a bare
call or defer statement, swallow an error (return nil for return err), break
<-> continue, +1 / -1 on small integer literals. Lines carrying vhook
instrumentation are never mutated."""
import json, os, random, re, subprocess, sys, shutil, tempfile, time, hashlib
from concurrent.futures import ThreadPoolExecutor

VERIF = os.path.dirname(os.path.dirname(os.path.abspath(__file__)))
ENV = dict(os.environ, GOFLAGS="-mod=mod", GOPROXY="off", GOSUMDB="off", GOTOOLCHAIN="local")
REPO = "/repo"

# file -> checks whose property is anchored there
TARGETS = {
    "lib/file/control_file.go": ["C09", "C11", "C19", "C10"],
    "lib/file/handler.go": ["C09", "C10", "C11", "C19"],
    "lib/file/container.go": ["C09", "C11", "C01"],
    "lib/file/functions.go": ["C09", "C11", "C19"],
    "lib/query/transaction.go": ["C01", "C10", "C11", "C09"],
    "lib/query/uncommitted_views.go": ["C01", "C08", "C20"],
    "lib/query/view_map.go": ["C01", "C08", "C20", "C11"],
    "lib/query/goroutine_manager.go": ["C12", "C13"],
    "lib/query/load_view.go": ["C20", "C19", "C11", "C09", "C13"],
    "lib/query/processor.go": ["C01", "C08", "C11"],
    "lib/query/reference_scope.go": ["C01", "C08", "C14"],
    "lib/query/query.go": ["C08", "C01", "C20", "C12", "C14"],
    "lib/query/join.go": ["C12", "C13"],
    "lib/query/eval.go": ["C12", "C14", "C13"],
    "lib/query/view.go": ["C12", "C13", "C14", "C08"],
    "lib/query/analytic_function.go": ["C12", "C13", "C14"],
    "lib/action/run.go": ["C01", "C11", "C19"],
    "lib/cli/app.go": ["C11", "C01", "C19"],
}


# only these line ranges are mutated (functions the properties are anchored in);
# a file without an entry is mutated everywhere
RANGES = {
    "lib/query/transaction.go": [(120, 300)],
    "lib/query/load_view.go": [(54, 120), (330, 420), (507, 575), (678, 1000), (1217, 1330)],
    "lib/query/query.go": [(14, 100), (346, 1040)],
    "lib/query/processor.go": [(73, 330), (754, 790)],
    "lib/query/goroutine_manager.go": [(35, 200)],
    "lib/action/run.go": [(22, 64)],
    "lib/cli/app.go": [(323, 400), (540, 575)],
}


def in_range(f, line):
    r = RANGES.get(f)
    return r is None or any(lo <= line <= hi for lo, hi in r)


def sh(cmd, **kw):
    return subprocess.run(cmd, shell=True, capture_output=True, text=True, env=kw.pop("env", ENV), **kw)


def mutants_of(line):
    """yield (operator, new line) for one source line"""
    s = line.rstrip("\n")
    st = s.strip()
    if "vhook." in s or st.startswith("//") or st == "" or st.startswith("import") or st.startswith("package"):
        return
    m = re.match(r"^(\s*)(\}? ?(?:else )?if )(.*) \{$", s)
    if m and ";" not in m.group(3):
        yield "negate-if", "%s%s!(%s) {" % (m.group(1), m.group(2), m.group(3))
    m2 = re.match(r"^(\s*)((?:\} else )?if .*; )(.*) \{$", s)
    if m2:
        yield "negate-if", "%s%s!(%s) {" % (m2.group(1), m2.group(2), m2.group(3))
    if " && " in s:
        yield "and-or", s.replace(" && ", " || ", 1)
    if " || " in s:
        yield "or-and", s.replace(" || ", " && ", 1)
    if " == " in s and "if " in s:
        yield "eq-ne", s.replace(" == ", " != ", 1)
    if " != " in s and "if " in s and "err != nil" not in s:
        yield "ne-eq", s.replace(" != ", " == ", 1)
    if " < " in s:
        yield "lt-le", s.replace(" < ", " <= ", 1)
    if " <= " in s:
        yield "le-lt", s.replace(" <= ", " < ", 1)
    if re.search(r"\btrue\b", s):
        yield "true-false", re.sub(r"\btrue\b", "false", s, 1)
    if re.search(r"\bfalse\b", s):
        yield "false-true", re.sub(r"\bfalse\b", "true", s, 1)
    if re.match(r"^\s+(defer )?[\w.\[\]]+\([^{}]*\)$", s) and not st.startswith("return") and not st.startswith("panic"):
        yield "drop-call", re.match(r"^(\s*)", s).group(1) + "// dropped"
    if re.match(r"^\s+return (.*, )?err$", s):
        yield "swallow-err", re.sub(r"\berr$", "nil", s)
    if st == "break":
        yield "break-continue", s.replace("break", "continue")
    if st == "continue":
        yield "continue-break", s.replace("continue", "break")
    m3 = re.search(r"(?<![\w.\"])([0-9])(?![\w.\"])", s)
    if m3 and "case" not in s and '"' not in s:
        d = int(m3.group(1))
        yield "int+1", s[:m3.start(1)] + str(d + 1) + s[m3.end(1):]
    m4 = re.match(r"^(\s+)([\w.]+) = (\w.*)$", s)
    if m4 and not m4.group(3).endswith("{") and not m4.group(3).endswith("("):
        yield "drop-assign", m4.group(1) + "_ = " + m4.group(3)


def enumerate_mutants(flt):
    out = []
    for f in sorted(TARGETS):
        if flt and flt not in f:
            continue
        lines = open(os.path.join(REPO, f)).read().split("\n")
        for i, l in enumerate(lines):
            if not in_range(f, i + 1):
                continue
            for op, nl in mutants_of(l):
                if nl != l:
                    out.append((f, i, op, nl))
    return out


def classify(mt, budget):
    f, i, op, nl = mt
    name = "am-%s-%d-%s" % (os.path.basename(f).replace(".go", ""), i + 1, op)
    wt = "/tmp/" + name
    res = dict(name=name, file=f, line=i + 1, op=op, new=nl.strip(), time=time.strftime("%H:%M:%S"))
    sh("git -C %s worktree remove --force %s" % (REPO, wt))
    r = sh("git -C %s worktree add --detach %s HEAD" % (REPO, wt))
    if r.returncode:
        res["class"] = "infra"; res["error"] = r.stderr[-300:]; return res
    try:
        p = os.path.join(wt, f)
        lines = open(p).read().split("\n")
        res["old"] = lines[i].strip()
        lines[i] = nl
        open(p, "w").write("\n".join(lines))
        pkg = "./" + os.path.dirname(f) + "/"
        r = sh("go build ./... && go build -tags verif ./...", cwd=wt)
        if r.returncode:
            res["class"] = "nocompile"; return res
        r = sh("flock /tmp/csvq-suite.lock go test -vet=off -count=1 -p 1 %s 2>&1 | grep -v '^ok\\|no test files'" % pkg, cwd=wt)
        if r.stdout.strip():
            res["class"] = "suite-killed"; res["by"] = "package"; return res
        r = sh("flock /tmp/csvq-suite.lock go test -vet=off -count=1 -p 1 ./... 2>&1 | grep -v '^ok\\|no test files'", cwd=wt)
        if r.stdout.strip():
            res["class"] = "suite-killed"; res["by"] = "suite"; return res
        res["checks"] = {}
        caught = False; infra = False
        for prop in TARGETS[f]:
            rd = tempfile.mkdtemp(prefix="amreplay-")
            env = dict(ENV, VERIF_REPO=wt, VERIF_REPLAY_DIR=rd)
            t0 = time.time()
            r = sh("%s/vcheck %s --no-evidence --budget %d --workers 5" % (VERIF, prop, budget), env=env)
            sigs = [l.split("signature: ")[1] for l in r.stdout.splitlines() if "signature: " in l]
            res["checks"][prop] = dict(rc=r.returncode, wall=round(time.time() - t0, 1), sigs=sigs[:3],
                                       tail=(r.stderr[-300:] if r.returncode == 2 else ""))
            shutil.rmtree(rd, ignore_errors=True)
            if r.returncode == 1:
                caught = True
                break
            if r.returncode == 2:
                infra = True
        res["class"] = "caught" if caught else ("infra" if infra else "survived")
    finally:
        sh("git -C %s worktree remove --force %s" % (REPO, wt))
        shutil.rmtree(wt, ignore_errors=True)
    return res


def main():
    seed = int(sys.argv[1]); count = int(sys.argv[2]); flt = sys.argv[3] if len(sys.argv) > 3 else ""
    budget = int(os.environ.get("MUT_BUDGET", "20"))
    allm = enumerate_mutants(flt)
    rng = random.Random(seed)
    rng.shuffle(allm)
    done = set()
    outp = os.path.join(VERIF, "tools", "automut_results.jsonl")
    if os.path.exists(outp):
        for l in open(outp):
            done.add(json.loads(l)["name"])
    pick = []
    for mt in allm:
        name = "am-%s-%d-%s" % (os.path.basename(mt[0]).replace(".go", ""), mt[1] + 1, mt[2])
        if name in done:
            continue
        pick.append(mt)
        if len(pick) >= count:
            break
    print("population %d, sampling %d (seed %d)" % (len(allm), len(pick), seed), flush=True)
    with ThreadPoolExecutor(max_workers=int(os.environ.get("MUT_PAR", "3"))) as ex:
        for res in ex.map(lambda m: classify(m, budget), pick):
            with open(outp, "a") as fo:
                fo.write(json.dumps(res) + "\n")
            print(res["class"], res["name"], "|", res.get("old", "")[:70], "=>", res["new"][:70],
                  {k: v["rc"] for k, v in res.get("checks", {}).items()}, flush=True)


main()
