#!/bin/bash
# tools/cover.sh <prop> [budget s] [workers] : statement coverage of csvq's own code under one check's workload
# (diagnostic, not a check): builds the simulator with -cover for csvq's packages, runs the batch mode and
# prints the functions of lib/query, lib/file, lib/value that were never or hardly executed.
prop=$1; budget=${2:-30}; workers=${3:-4}
export GOFLAGS=-mod=mod GOPROXY=off GOSUMDB=off GOTOOLCHAIN=local
out=$(mktemp -d /tmp/cov-$prop-XXXX)
cd /verif/sim
cat /repo/go.sum go.sum.extra | sort -u > go.sum
race=""; [ "$prop" = C13 ] && race=""
go1.26.8 test -c -tags verif -cover -coverpkg=github.com/mithrandie/csvq/lib/... -o $out/sim.test . || exit 2
CGO_ENABLED=0 go build -tags verif -o $out/csvq /repo 2>/dev/null || (cd /repo && CGO_ENABLED=0 go build -tags verif -o $out/csvq .)
cd /verif
for w in $(seq 0 $((workers-1))); do
  mkdir -p $out/w$w
  VERIF_CSVQ_BIN=$out/csvq VERIF_PROP=$prop VERIF_TIER=quick VERIF_MODE=batch VERIF_BATCH_SEED=${VERIF_SEED:-20240924} VERIF_FROM=$((w*1000000)) VERIF_TO=$(((w+1)*1000000)) \
  VERIF_BUDGET_S=$budget VERIF_OUT=$out/w$w VERIF_WORKER=$w VERIF_SCRATCH=$out \
  $out/sim.test -test.run '^TestSim$' -test.timeout 3600s -test.cpu 1 -test.coverprofile=$out/cover$w.out > $out/w$w/log 2>&1 &
done
wait
# merge: mode line + max count per block
python3 - $out <<'PY'
import sys,glob,collections
out=sys.argv[1]; blocks=collections.defaultdict(int); stm={}
for f in glob.glob(out+'/cover*.out'):
    for l in open(f):
        if l.startswith('mode:'): continue
        k,n,c=l.rsplit(' ',2); blocks[k]+=int(c); stm[k]=int(n)
with open(out+'/merged.out','w') as o:
    o.write('mode: count\n')
    for k in blocks: o.write('%s %d %d\n'%(k,stm[k],blocks[k]))
PY
grep -v "\.y:\|yaccpar\|/parser\.go:\|query_parser\.go\|path_parser\.go" $out/merged.out > $out/m2.out; cd /repo && go1.26.8 tool cover -func=$out/m2.out > $out/func.txt
echo "coverage written to $out/func.txt (merged profile $out/merged.out)"
tail -1 $out/func.txt
