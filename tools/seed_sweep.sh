#!/bin/bash
# tools/seed_sweep.sh "<props>" "<seeds>" [budget] : runs the quick checks under several VERIF_SEED values
# on the unchanged tree and prints one line per run; anything but rc=0 needs attention.
props=${1:-"C01 C08 C09 C10 C11 C12 C13 C14 C19 C20"}; seeds=${2:-"1 2 3 4 5"}; budget=${3:-40}
for s in $seeds; do for p in $props; do
  out=$(VERIF_SEED=$s ./vcheck $p --no-evidence --budget $budget 2>&1); rc=$?
  echo "seed=$s prop=$p rc=$rc $(echo "$out" | grep -E "quick:|VIOLATION|INFRA" | head -3 | tr '\n' ' ' | cut -c1-300)"
  if [ $rc -ne 0 ]; then echo "$out" | tail -15 | cut -c1-400 | sed 's/^/    | /'; fi
done; done
