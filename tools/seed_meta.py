#!/usr/bin/env python3
"""tools/seed_meta.py <id> <property> <needs text> <what text> <demo cmd> : writes /verif/seeded/<id>/meta.json
from the confirmation logs and the last mutation result of that id."""
import json, sys, os
sid, prop, needs, what, demo = sys.argv[1:6]
d = "/verif/seeded/" + sid
res = None
for l in open("/verif/tools/mutation_results.jsonl"):
    r = json.loads(l)
    if r["name"] == sid:
        res = r
meta = {
 "id": sid, "breaks_property": prop, "author": "independent sub-agent (saw only the property text and a scratch worktree)",
 "what": what, "needs_to_manifest": needs, "demonstration": demo,
 "confirmed_by_me": "tools/seed_confirm.sh: existing suite passes with the change; demonstration fails with it and passes without it (logs next to this file)",
 "checks_run": res["checks"] if res else None,
 "caught_by": [p for p, c in (res["checks"].items() if res else []) if c["rc"] == 1],
}
json.dump(meta, open(d + "/meta.json", "w"), indent=1)
print(json.dumps(meta)[:300])
