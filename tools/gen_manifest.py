#!/usr/bin/env python3
import json, os, subprocess
V = os.path.dirname(os.path.dirname(os.path.abspath(__file__)))
hooks = subprocess.run("git -C /repo log --format='%h %s' 3a01680..HEAD", shell=True, capture_output=True, text=True).stdout.strip().splitlines()
hook_commits = [l.split()[0] for l in hooks if l.split(" ", 1)[1].startswith("verif:")]
CHECKS = json.load(open(os.path.join(V, "tools", "checks.json")))
NA = json.load(open(os.path.join(V, "tools", "not_applicable.json")))
m = {
 "version": 1,
 "setup_cmd": "cd /verif/sim && GOFLAGS=-mod=mod GOPROXY=off GOSUMDB=off GOTOOLCHAIN=local go1.26.8 vet -tags verif . && mkdir -p /verif/bin /verif/evidence /verif/replays",
 "hooks": {
  "guard": "verif (Go build tag)",
  "enable": "go1.26.8 test -c -tags verif (module /verif/sim with 'replace github.com/mithrandie/csvq => /repo'; plus -overlay with copies of lib/file/*.go, lib/query/*.go and lib/value/*.go into which tools/autoyield inserted further vhook.Yield calls (in front of file-system calls, at the top of goroutine literals and in front of every context poll of the statement-level code) and in which every sync.Pool became a vhook.SPool (that type is added to package vhook through the same overlay), /repo itself untouched); real-process tier: CGO_ENABLED=0 go build -tags verif /repo. The repairs 38c55e8 and 1273d6d (fix: commits) take Transaction.operationMutex in a new helper and carry the one vhook.AwaitMutex line that every Lock of that mutex has (a no-op without the tag)",
  "baseline_off_cmd": "cd /repo && GOFLAGS=-mod=mod GOPROXY=off GOSUMDB=off go test -vet=off -count=1 -json ./...",
  "source_commits": hook_commits,
  "add_only": False
 },
 "engines": [
  {"name": "sim", "path": "/verif/sim", "serves_properties": [c["property_id"] for c in CHECKS],
   "kind_free_text": "deterministic simulation: real csvq code (parser, processor, transaction, lib/file, go-file) run as simulated processes/goroutines inside testing/synctest bubbles; a seeded controller decides every interleaving at build-tagged yield points, advances the fake clock, injects cancellations, I/O faults, torn writes and crash images; oracles are reference models, porcupine linearizability and directory invariants; violations are minimised and replayed from a decision vector"},
  {"name": "vcheck", "path": "/verif/vcheck", "serves_properties": [c["property_id"] for c in CHECKS],
   "kind_free_text": "driver: rebuilds from /repo, fans run seeds out over worker processes, confirms every candidate in a fresh process, minimises, writes replay + evidence"}
 ],
 "checks": [],
 "not_applicable": NA,
 "notes": "hooks are add-only except two guarded lines in Transaction.Commit (range over commitOrder(map): identity without the tag, sorted slice with it) needed for replayable multi-file commits; fix: commits in /repo are listed in known_findings.json"
}
for c in CHECKS:
    pid = c["property_id"]
    m["checks"].append({
        "property_id": pid,
        "quick_cmd": "./vcheck %s --tier quick" % pid,
        "thorough_cmd": "./vcheck %s --tier thorough" % pid,
        "evidence_file": "/verif/evidence/%s.json" % pid,
        "replay_cmd_template": "./vcheck %s --replay {path}" % pid,
        "engine": "sim",
        "level_claimed": {"category": c["level"], "text": c["text"], "design_ref": c["design_ref"]},
        "level_note": c["note"],
        "technique": c["technique"],
    })
json.dump(m, open(os.path.join(V, "MANIFEST.json"), "w"), indent=1)
print("checks:", [c["property_id"] for c in CHECKS])
