// autoyield writes instrumented copies of Go source files: in front of every
// statement that performs a file-system call a scheduling point
// vhook.Yield("auto:<file>:<line>", 0) is inserted ON THE SAME LINE (so line
// numbers do not change), unless the statement already follows a vhook call.
// The copies are used through `go build -overlay`; /repo is never modified.
//
// Why: the hand-placed hooks in /repo mark the file-system steps of the lock
// and commit protocols as they are today. A change that adds a step between
// two hooks, or rewrites a function and drops its hook lines, would otherwise
// have no scheduling point in front of the new calls, and no interleaving of
// another process with them could be explored.
//
// usage: autoyield -out <dir> <file.go>...   (prints the overlay JSON on stdout)
package main

import (
	"encoding/json"
	"flag"
	"fmt"
	"go/ast"
	"go/parser"
	"go/token"
	"os"
	"path/filepath"
	"sort"
	"strings"
)

var osCalls = map[string]bool{"Remove": true, "Rename": true, "OpenFile": true, "Open": true, "Create": true, "Stat": true, "Lstat": true,
	"Mkdir": true, "MkdirAll": true, "Truncate": true, "Symlink": true, "Readlink": true, "Chmod": true, "Link": true, "RemoveAll": true,
	"ReadFile": true, "WriteFile": true, "ReadDir": true, "Chtimes": true}
var anyRecv = map[string]bool{"Truncate": true, "Seek": true, "Sync": true}
var plainCalls = map[string]bool{"Exists": true, "LockExists": true, "RLockExists": true}

func isVhookCall(n ast.Node) bool {
	found := false
	ast.Inspect(n, func(x ast.Node) bool {
		if id, ok := x.(*ast.Ident); ok && id.Name == "vhook" {
			found = true
		}
		return !found
	})
	return found
}

// exprs returns the expressions evaluated by the statement itself (not by
// nested blocks).
func exprs(s ast.Stmt) []ast.Node {
	switch t := s.(type) {
	case *ast.ExprStmt:
		return []ast.Node{t.X}
	case *ast.AssignStmt:
		var l []ast.Node
		for _, e := range t.Rhs {
			l = append(l, e)
		}
		return l
	case *ast.ReturnStmt:
		var l []ast.Node
		for _, e := range t.Results {
			l = append(l, e)
		}
		return l
	case *ast.IfStmt:
		var l []ast.Node
		if t.Init != nil {
			l = append(l, t.Init)
		}
		return append(l, t.Cond)
	case *ast.SwitchStmt:
		var l []ast.Node
		if t.Init != nil {
			l = append(l, t.Init)
		}
		if t.Tag != nil {
			l = append(l, t.Tag)
		}
		return l
	case *ast.DeclStmt:
		return []ast.Node{t.Decl}
	}
	return nil
}

func hasFSCall(nodes []ast.Node, filePkg string) bool {
	found := false
	for _, n := range nodes {
		ast.Inspect(n, func(x ast.Node) bool {
			if found {
				return false
			}
			if _, ok := x.(*ast.FuncLit); ok {
				return false
			}
			c, ok := x.(*ast.CallExpr)
			if !ok {
				return true
			}
			switch f := c.Fun.(type) {
			case *ast.SelectorExpr:
				if id, ok := f.X.(*ast.Ident); ok {
					if id.Name == "os" && osCalls[f.Sel.Name] {
						found = true
					}
					if filePkg != "" && id.Name == filePkg {
						found = true
					}
				}
				if anyRecv[f.Sel.Name] {
					found = true
				}
			case *ast.Ident:
				if plainCalls[f.Name] {
					found = true
				}
			}
			return !found
		})
	}
	return found
}

type ins struct {
	off  int
	text string
}

func main() {
	out := flag.String("out", "", "output directory")
	goOnly := flag.String("goonly", "", "comma-separated files that only get a scheduling point at the top of every `go func() {...}()` literal")
	flag.Parse()
	goOnlySet := map[string]bool{}
	files := flag.Args()
	for _, g := range strings.Split(*goOnly, ",") {
		if g != "" {
			goOnlySet[g] = true
			files = append(files, g)
		}
	}
	overlay := map[string]string{}
	total := 0
	for i, path := range files {
		src, err := os.ReadFile(path)
		if err != nil {
			fmt.Fprintln(os.Stderr, err)
			os.Exit(2)
		}
		fset := token.NewFileSet()
		f, err := parser.ParseFile(fset, path, src, parser.ParseComments)
		if err != nil {
			fmt.Fprintln(os.Stderr, err)
			os.Exit(2)
		}
		filePkg := ""
		hasVhook := false
		for _, im := range f.Imports {
			p := strings.Trim(im.Path.Value, "\"")
			if p == "github.com/mithrandie/go-file/v2" || p == "github.com/mithrandie/go-file" {
				filePkg = "file"
				if im.Name != nil {
					filePkg = im.Name.Name
				}
			}
			if strings.HasSuffix(p, "/lib/vhook") {
				hasVhook = true
			}
		}
		if f.Name.Name == "file" && filePkg == "file" {
			// inside package file the identifier `file` is the go-file import as well
		}
		var list []ins
		base := filepath.Base(path)
		visit := func(stmts []ast.Stmt) {
			for j, s := range stmts {
				if isVhookCall(s) && exprsOnly(s) {
					continue
				}
				if j > 0 && isVhookCall(stmts[j-1]) && exprsOnlyShallow(stmts[j-1]) {
					continue
				}
				ex := exprs(s)
				if ex == nil || !hasFSCall(ex, filePkg) {
					continue
				}
				for _, e := range ex {
					if isVhookCall(e) {
						ex = nil
					}
				}
				if ex == nil {
					continue
				}
				pos := fset.Position(s.Pos())
				list = append(list, ins{off: pos.Offset, text: fmt.Sprintf("vhook.Yield(\"auto:%s:%d\", 0); ", base, pos.Line)})
			}
		}
		ast.Inspect(f, func(n ast.Node) bool {
			// a goroutine started from a function literal parks before it does anything
			// (a change that starts a new goroutine would otherwise run outside the
			// simulator's control: the kernel names goroutines at "*.start" points)
			if g, ok := n.(*ast.GoStmt); ok {
				if fl, ok := g.Call.Fun.(*ast.FuncLit); ok && fl.Body != nil {
					if len(fl.Body.List) == 0 || !(isVhookCall(fl.Body.List[0]) && exprsOnlyShallow(fl.Body.List[0])) {
						pos := fset.Position(fl.Body.Lbrace)
						list = append(list, ins{off: pos.Offset + 1, text: fmt.Sprintf(" vhook.Yield(\"auto:go:%s:%d.start\", 0); ", base, pos.Line)})
					}
				}
			}
			if goOnlySet[path] {
				return true
			}
			switch t := n.(type) {
			case *ast.BlockStmt:
				visit(t.List)
			case *ast.CaseClause:
				visit(t.Body)
			case *ast.CommClause:
				visit(t.Body)
			}
			return true
		})
		if len(list) == 0 {
			continue
		}
		sort.Slice(list, func(a, b int) bool { return list[a].off > list[b].off })
		b := src
		for _, in := range list {
			b = append(b[:in.off:in.off], append([]byte(in.text), b[in.off:]...)...)
		}
		if !hasVhook {
			// add the import right after the package clause, on the same line
			end := fset.Position(f.Name.End()).Offset
			b = append(b[:end:end], append([]byte("; import \"github.com/mithrandie/csvq/lib/vhook\""), b[end:]...)...)
		}
		dst := filepath.Join(*out, fmt.Sprintf("%d_%s", i, base))
		if err := os.WriteFile(dst, b, 0644); err != nil {
			fmt.Fprintln(os.Stderr, err)
			os.Exit(2)
		}
		abs, _ := filepath.Abs(path)
		overlay[abs] = dst
		total += len(list)
	}
	js, _ := json.MarshalIndent(map[string]interface{}{"Replace": overlay}, "", " ")
	fmt.Println(string(js))
	fmt.Fprintf(os.Stderr, "autoyield: %d scheduling points inserted in %d files\n", total, len(overlay))
}

// exprsOnly: the statement is nothing but a vhook call (or an if around one)
func exprsOnly(s ast.Stmt) bool { return exprsOnlyShallow(s) }

func exprsOnlyShallow(s ast.Stmt) bool {
	switch t := s.(type) {
	case *ast.ExprStmt:
		return isVhookCall(t.X)
	case *ast.IfStmt:
		// if e := vhook.Step(...); e != nil { return ... }
		return t.Init != nil && isVhookCall(t.Init)
	case *ast.AssignStmt:
		for _, e := range t.Rhs {
			if isVhookCall(e) {
				return true
			}
		}
	}
	return false
}
