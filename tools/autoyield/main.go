// autoyield writes instrumented copies of Go source files: in front of every
// statement that performs a file-system call a scheduling point
// vhook.Yield("auto:<file>:<line>", 0) is inserted ON THE SAME LINE (so line
// numbers do not change), unless the statement already follows a vhook call.
// The copies are used through `go build -overlay`; /repo is never modified.
//
// Why: the hand-placed hooks in /repo mark the file-system steps of the lock
// and commit protocols as they are today. A change that adds a step between
// two hooks, or rewrites a function and drops its hook lines, would otherwise
// have no scheduling point in front of the new calls, and no interleaving of
// another process with them could be explored.
//
// usage: autoyield -out <dir> <file.go>...   (prints the overlay JSON on stdout)
package main

import (
	"encoding/json"
	"flag"
	"fmt"
	"go/ast"
	"go/parser"
	"go/token"
	"os"
	"path/filepath"
	"sort"
	"strings"
)

var osCalls = map[string]bool{"Remove": true, "Rename": true, "OpenFile": true, "Open": true, "Create": true, "Stat": true, "Lstat": true,
	"Mkdir": true, "MkdirAll": true, "Truncate": true, "Symlink": true, "Readlink": true, "Chmod": true, "Link": true, "RemoveAll": true,
	"ReadFile": true, "WriteFile": true, "ReadDir": true, "Chtimes": true}
var anyRecv = map[string]bool{"Truncate": true, "Seek": true, "Sync": true}
var plainCalls = map[string]bool{"Exists": true, "LockExists": true, "RLockExists": true}

func isVhookCall(n ast.Node) bool {
	found := false
	ast.Inspect(n, func(x ast.Node) bool {
		if id, ok := x.(*ast.Ident); ok && id.Name == "vhook" {
			found = true
		}
		return !found
	})
	return found
}

// exprs returns the expressions evaluated by the statement itself (not by
// nested blocks).
func exprs(s ast.Stmt) []ast.Node {
	switch t := s.(type) {
	case *ast.ExprStmt:
		return []ast.Node{t.X}
	case *ast.AssignStmt:
		var l []ast.Node
		for _, e := range t.Rhs {
			l = append(l, e)
		}
		return l
	case *ast.ReturnStmt:
		var l []ast.Node
		for _, e := range t.Results {
			l = append(l, e)
		}
		return l
	case *ast.IfStmt:
		var l []ast.Node
		if t.Init != nil {
			l = append(l, t.Init)
		}
		return append(l, t.Cond)
	case *ast.SwitchStmt:
		var l []ast.Node
		if t.Init != nil {
			l = append(l, t.Init)
		}
		if t.Tag != nil {
			l = append(l, t.Tag)
		}
		return l
	case *ast.DeclStmt:
		return []ast.Node{t.Decl}
	}
	return nil
}

// hasAtomicOp: the statement itself calls a function of sync/atomic (or a CompareAndSwap method)
func hasAtomicOp(nodes []ast.Node) bool {
	found := false
	for _, n := range nodes {
		ast.Inspect(n, func(x ast.Node) bool {
			if found {
				return false
			}
			if _, ok := x.(*ast.FuncLit); ok {
				return false
			}
			if c, ok := x.(*ast.CallExpr); ok {
				if f, ok := c.Fun.(*ast.SelectorExpr); ok {
					if id, ok := f.X.(*ast.Ident); ok && id.Name == "atomic" {
						found = true
					}
					if f.Sel.Name == "CompareAndSwap" {
						found = true
					}
				}
			}
			return !found
		})
	}
	return found
}

// hasCtxPoll: the statement itself calls ctx.Err()
func hasCtxPoll(nodes []ast.Node) bool {
	found := false
	for _, n := range nodes {
		ast.Inspect(n, func(x ast.Node) bool {
			if found {
				return false
			}
			if _, ok := x.(*ast.FuncLit); ok {
				return false
			}
			if c, ok := x.(*ast.CallExpr); ok {
				if f, ok := c.Fun.(*ast.SelectorExpr); ok && f.Sel.Name == "Err" {
					if id, ok := f.X.(*ast.Ident); ok && id.Name == "ctx" {
						found = true
					}
				}
			}
			return !found
		})
	}
	return found
}

func hasFSCall(nodes []ast.Node, filePkg string) bool {
	found := false
	for _, n := range nodes {
		ast.Inspect(n, func(x ast.Node) bool {
			if found {
				return false
			}
			if _, ok := x.(*ast.FuncLit); ok {
				return false
			}
			c, ok := x.(*ast.CallExpr)
			if !ok {
				return true
			}
			switch f := c.Fun.(type) {
			case *ast.SelectorExpr:
				if id, ok := f.X.(*ast.Ident); ok {
					if id.Name == "os" && osCalls[f.Sel.Name] {
						found = true
					}
					if filePkg != "" && id.Name == filePkg {
						found = true
					}
				}
				if anyRecv[f.Sel.Name] {
					found = true
				}
			case *ast.Ident:
				if plainCalls[f.Name] {
					found = true
				}
			}
			return !found
		})
	}
	return found
}

type ins struct {
	off  int
	text string
	del  int // bytes replaced at off (0: pure insertion)
}

// spoolSrc is added to package vhook of the tree under test (through the
// overlay, tag verif): a drop-in for sync.Pool whose Get / Put ask the
// installed controller first. The controller takes part only if it has the
// DynPool methods (the simulator's kernel has), so every sync.Pool of
// lib/query and lib/value - also one that a change adds, and also a Put or Get
// that a change adds without a hook line - is served by the simulated
// allocator, whatever the shape of the code around it.
const spoolSrc = `//go:build verif

package vhook

import (
	"sync"
	"sync/atomic"
)

type dynPooler interface {
	DynPoolGet(id uint64) (v interface{}, handled bool)
	DynPoolPut(id uint64, v interface{}) bool
}

var spoolSeq atomic.Uint64

type SPool struct {
	New  func() interface{}
	real sync.Pool
	id   atomic.Uint64
}

func (p *SPool) ident() uint64 {
	id := p.id.Load()
	if id == 0 {
		id = spoolSeq.Add(1)
		if !p.id.CompareAndSwap(0, id) {
			id = p.id.Load()
		}
	}
	return id
}

func (p *SPool) Get() interface{} {
	if c := ctl(); c != nil {
		if d, ok := c.(dynPooler); ok {
			if v, handled := d.DynPoolGet(p.ident()); handled {
				if v != nil {
					return v
				}
				if p.New != nil {
					return p.New()
				}
				return nil
			}
		}
	}
	if v := p.real.Get(); v != nil {
		return v
	}
	if p.New != nil {
		return p.New()
	}
	return nil
}

func (p *SPool) Put(v interface{}) {
	if c := ctl(); c != nil {
		if d, ok := c.(dynPooler); ok {
			if d.DynPoolPut(p.ident(), v) {
				return
			}
		}
	}
	p.real.Put(v)
}
`

func main() {
	out := flag.String("out", "", "output directory")
	goOnly := flag.String("goonly", "", "comma-separated files that only get a scheduling point at the top of every `go func() {...}()` literal")
	simPool := flag.String("simpool", "", "comma-separated files in which every sync.Pool becomes a vhook.SPool (served by the simulated allocator); they are processed in addition to the other lists")
	vhookDir := flag.String("vhookdir", "", "directory of package vhook of the tree under test (gets spool_verif.go through the overlay when -simpool is used)")
	atomicOps := flag.String("atomic", "", "comma-separated files in which every statement that calls sync/atomic gets a (thinned, row-level) scheduling point in front of it: a protocol built from atomic operations has its interleavings between them")
	ctxPoll := flag.String("ctxpoll", "", "comma-separated files in which every statement that polls the context (ctx.Err()) gets a scheduling point in front of it: a cancellation can only be noticed at a poll, so every poll is a point at which one can arrive")
	flag.Parse()
	ctxPollSet := map[string]bool{}
	for _, g := range strings.Split(*ctxPoll, ",") {
		if g != "" {
			ctxPollSet[g] = true
		}
	}
	simPoolSet := map[string]bool{}
	for _, g := range strings.Split(*simPool, ",") {
		if g != "" {
			simPoolSet[g] = true
		}
	}
	goOnlySet := map[string]bool{}
	files := flag.Args()
	full := map[string]bool{}
	for _, f := range files {
		full[f] = true
	}
	for _, g := range strings.Split(*goOnly, ",") {
		if g != "" && !full[g] && !goOnlySet[g] {
			goOnlySet[g] = true
			files = append(files, g)
		}
	}
	atomicSet := map[string]bool{}
	for _, g := range strings.Split(*atomicOps, ",") {
		if g != "" {
			atomicSet[g] = true
		}
	}
	extra := map[string]bool{}
	for g := range ctxPollSet {
		extra[g] = true
	}
	for g := range atomicSet {
		extra[g] = true
	}
	for g := range simPoolSet {
		extra[g] = true
	}
	for g := range extra {
		known := false
		for _, f := range files {
			if f == g {
				known = true
			}
		}
		if !known {
			goOnlySet[g] = true // no statement-level yields there
			files = append(files, g)
		}
	}
	sort.Strings(files)
	overlay := map[string]string{}
	total := 0
	pools := 0
	ctxPoints := 0
	atomicPoints := 0
	for i, path := range files {
		src, err := os.ReadFile(path)
		if err != nil {
			fmt.Fprintln(os.Stderr, err)
			os.Exit(2)
		}
		fset := token.NewFileSet()
		f, err := parser.ParseFile(fset, path, src, parser.ParseComments)
		if err != nil {
			fmt.Fprintln(os.Stderr, err)
			os.Exit(2)
		}
		filePkg := ""
		hasVhook := false
		for _, im := range f.Imports {
			p := strings.Trim(im.Path.Value, "\"")
			if p == "github.com/mithrandie/go-file/v2" || p == "github.com/mithrandie/go-file" {
				filePkg = "file"
				if im.Name != nil {
					filePkg = im.Name.Name
				}
			}
			if strings.HasSuffix(p, "/lib/vhook") {
				hasVhook = true
			}
		}
		var list []ins
		syncUsedElsewhere := false
		poolsHere := 0
		if simPoolSet[path] {
			ast.Inspect(f, func(n ast.Node) bool {
				se, ok := n.(*ast.SelectorExpr)
				if !ok {
					return true
				}
				if id, ok := se.X.(*ast.Ident); ok && id.Name == "sync" {
					if se.Sel.Name == "Pool" {
						pos := fset.Position(se.Pos())
						list = append(list, ins{off: pos.Offset, del: len("sync.Pool"), text: "vhook.SPool"})
						poolsHere++
					} else {
						syncUsedElsewhere = true
					}
				}
				return true
			})
		}
		base := filepath.Base(path)
		visitCtx := func(stmts []ast.Stmt) {
			for j, s := range stmts {
				if isVhookCall(s) && exprsOnly(s) {
					continue
				}
				if j > 0 && isVhookCall(stmts[j-1]) && exprsOnlyShallow(stmts[j-1]) {
					continue
				}
				if _, isReturn := s.(*ast.ReturnStmt); isReturn {
					continue
				}
				ex := exprs(s)
				if ex == nil {
					continue
				}
				pos := fset.Position(s.Pos())
				if ctxPollSet[path] && hasCtxPoll(ex) {
					list = append(list, ins{off: pos.Offset, text: fmt.Sprintf("vhook.Yield(\"auto:ctx:%s:%d\", 0); ", base, pos.Line)})
					ctxPoints++
				} else if atomicSet[path] && hasAtomicOp(ex) {
					list = append(list, ins{off: pos.Offset, text: fmt.Sprintf("vhook.Yield(\"auto:atomic:%s:%d.row\", 0); ", base, pos.Line)})
					atomicPoints++
				}
			}
		}
		visit := func(stmts []ast.Stmt) {
			for j, s := range stmts {
				if isVhookCall(s) && exprsOnly(s) {
					continue
				}
				if j > 0 && isVhookCall(stmts[j-1]) && exprsOnlyShallow(stmts[j-1]) {
					continue
				}
				ex := exprs(s)
				if ex == nil || !hasFSCall(ex, filePkg) {
					continue
				}
				for _, e := range ex {
					if isVhookCall(e) {
						ex = nil
					}
				}
				if ex == nil {
					continue
				}
				pos := fset.Position(s.Pos())
				list = append(list, ins{off: pos.Offset, text: fmt.Sprintf("vhook.Yield(\"auto:%s:%d\", 0); ", base, pos.Line)})
			}
		}
		ast.Inspect(f, func(n ast.Node) bool {
			// a goroutine started from a function literal parks before it does anything
			// (a change that starts a new goroutine would otherwise run outside the
			// simulator's control: the kernel names goroutines at "*.start" points)
			if g, ok := n.(*ast.GoStmt); ok {
				if fl, ok := g.Call.Fun.(*ast.FuncLit); ok && fl.Body != nil {
					if len(fl.Body.List) == 0 || !(isVhookCall(fl.Body.List[0]) && exprsOnlyShallow(fl.Body.List[0])) {
						pos := fset.Position(fl.Body.Lbrace)
						list = append(list, ins{off: pos.Offset + 1, text: fmt.Sprintf(" vhook.Yield(\"auto:go:%s:%d.start\", 0); ", base, pos.Line)})
					}
				}
			}
			if ctxPollSet[path] || atomicSet[path] {
				switch t := n.(type) {
				case *ast.BlockStmt:
					visitCtx(t.List)
				case *ast.CaseClause:
					visitCtx(t.Body)
				case *ast.CommClause:
					visitCtx(t.Body)
				}
			}
			if goOnlySet[path] {
				return true
			}
			switch t := n.(type) {
			case *ast.BlockStmt:
				visit(t.List)
			case *ast.CaseClause:
				visit(t.Body)
			case *ast.CommClause:
				visit(t.Body)
			}
			return true
		})
		if len(list) == 0 {
			continue
		}
		sort.Slice(list, func(a, b int) bool { return list[a].off > list[b].off })
		b := src
		for _, in := range list {
			b = append(b[:in.off:in.off], append([]byte(in.text), b[in.off+in.del:]...)...)
		}
		if poolsHere > 0 && !syncUsedElsewhere {
			b = append(b, []byte("\nvar _ sync.Locker\n")...)
		}
		pools += poolsHere
		if !hasVhook {
			// add the import right after the package clause, on the same line
			end := fset.Position(f.Name.End()).Offset
			b = append(b[:end:end], append([]byte("; import \"github.com/mithrandie/csvq/lib/vhook\""), b[end:]...)...)
		}
		dst := filepath.Join(*out, fmt.Sprintf("%d_%s", i, base))
		if err := os.WriteFile(dst, b, 0644); err != nil {
			fmt.Fprintln(os.Stderr, err)
			os.Exit(2)
		}
		abs, _ := filepath.Abs(path)
		overlay[abs] = dst
		total += len(list)
	}
	if pools > 0 && *vhookDir != "" {
		dst := filepath.Join(*out, "spool_verif.go")
		if err := os.WriteFile(dst, []byte(spoolSrc), 0644); err != nil {
			fmt.Fprintln(os.Stderr, err)
			os.Exit(2)
		}
		abs, _ := filepath.Abs(filepath.Join(*vhookDir, "spool_verif.go"))
		overlay[abs] = dst
	}
	js, _ := json.MarshalIndent(map[string]interface{}{"Replace": overlay}, "", " ")
	fmt.Println(string(js))
	fmt.Fprintf(os.Stderr, "autoyield: %d scheduling points inserted (%d at context polls, %d at atomic operations), %d sync.Pool made simulated, %d files\n", total-pools, ctxPoints, atomicPoints, pools, len(overlay))
}

// exprsOnly: the statement is nothing but a vhook call (or an if around one)
func exprsOnly(s ast.Stmt) bool { return exprsOnlyShallow(s) }

func exprsOnlyShallow(s ast.Stmt) bool {
	switch t := s.(type) {
	case *ast.ExprStmt:
		return isVhookCall(t.X)
	case *ast.IfStmt:
		// if e := vhook.Step(...); e != nil { return ... }
		return t.Init != nil && isVhookCall(t.Init)
	case *ast.AssignStmt:
		for _, e := range t.Rhs {
			if isVhookCall(e) {
				return true
			}
		}
	}
	return false
}
