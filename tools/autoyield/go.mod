module autoyield

go 1.21
