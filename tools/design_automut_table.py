#!/usr/bin/env python3
"""Regenerates the 'Systematic single-line mutants' subsection of DESIGN.md from
tools/automut_results.jsonl and the survivor analysis below."""
import json, os, collections
V = os.path.dirname(os.path.dirname(os.path.abspath(__file__)))
rs = {}
for l in open(V + '/tools/automut_results.jsonl'):
    r = json.loads(l)
    rs[r['name']] = r
rs = list(rs.values())

# why a survivor is not a gap (pattern on file:line or on the mutated text)
def why(r):
    f, ln, new, old = r['file'], r['line'], r.get('new', ''), r.get('old', '')
    if f.endswith('transaction.go') and ln >= 300:
        return "flag setter / message code outside the claimed properties"
    if 'errs' in old or 'cerrs' in old or 'swallow' in r['op'] or 'closeWithErrors' in old or 'CloseAllWithErrors' in old or 'CloseAll()' in old:
        return "only changes how errors of close / unlink calls are collected or reported: those calls do not fail in any explored run (clean-up-time faults are not injected, §2.3)"
    if 'm.fp' in old or 'file.Close' in old:
        return "descriptor of a control file not closed before unlink: a descriptor leak, invisible to the properties on Linux (unlink of an open file succeeds; process exit closes it)"
    if 'NewUrlResource' in old or (f.endswith('transaction.go') and ln < 60):
        return "URL table loading: not part of a claimed property"
    if 'CachedViews.Clean(tx.FileContainer)' in old:
        return "ReleaseResources returns before FileContainer.CloseAll when Clean succeeded: every handler belongs to a cached view at that point (handlers of failed loads are closed on their error path), CloseAll is a safety net"
    if 'quietForTemporaryViews' in old or ('tx.Flags.Quiet' in old and 'expr == nil' in old):
        return "notice text / empty-list guard: no effect on files or results"
    if 'tx.RetryDelay' in old:
        return "flag setter / message code outside the claimed properties"
    if 'LogNotice' in old or 'msglist' in old or 'createdFiles' in old or 'updatedFiles' in old:
        return "notice text / empty-list guard: no effect on files or results"
    if 'Unset(' in old or 'UncommittedViews.Clean' in old:
        return "redundant bookkeeping: Clean() after the loop (resp. the per-file Unset) does the same"
    if 'UnlockStdin' in old or 'ClearUrlCache' in old or 'SetWaitTimeout' in old:
        return "session-level stdin lock / URL cache / flag mirror: not part of a claimed property"
    if 'Truncate(0)' in old:
        return "Truncate(1) of an empty temp file followed by a write from offset 0 of at least one byte: same bytes"
    if 'StripEndingLineBreak' in old:
        return "differs only for single-line fixed-length tables (format round trip, C02: not applicable here)"
    if 'h.closed' in old:
        return "double close is idempotent: every resource is nil-ed after its release"
    if 'for i := 0; i < 10' in old:
        return "one attempt fewer to find an unused random rlock name"
    if 'os.Remove(m.path)' in old:
        return "only the error of removing a control file is inverted: the call does not fail in any explored run"
    if f.endswith('query.go') and ('return nil, 0,' in old or 'return false, err' in old):
        return "a count / flag returned next to a non-nil error: every caller looks at the error first"
    if 'columnNamesMap[' in old:
        return "map used as a set: only the presence of the key is tested"
    if 'len(fpath) < 1' in old:
        return "a resolved file path is never one character long"
    return "not analysed"

cls = collections.Counter(r['class'] for r in rs)
byf = collections.defaultdict(collections.Counter)
for r in rs:
    byf[r['file']][r['class']] += 1
reasons = collections.Counter()
unan = []
for r in rs:
    if r['class'] == 'survived':
        w = why(r)
        reasons[w] += 1
        if w == "not analysed":
            unan.append(r)
txt = """### Systematic single-line mutants (`tools/automut.py`)

Independently of the hand-written and agent-written changes, a seeded sample of
single-line mutants (negated condition, `&&`/`||`, `==`/`!=`, `<`/`<=`,
`true`/`false`, dropped call or `defer`, swallowed error, `break`/`continue`,
literal+1, dropped assignment) of the functions the properties are anchored in
was pushed through the same pipeline: build with and without the tag, the
repository's suite (package first, then all), then the mapped checks at the
quick budget against the scratch worktree. %d mutants so far: %d do not
compile, %d are killed by the repository's own suite (not the kind of change
the checks are for), %d survive the suite and are reported by a check, %d
survive both.

| file | no compile | suite kills | caught by a check | survive |
|---|---|---|---|---|
""" % (len(rs), cls['nocompile'], cls['suite-killed'], cls['caught'], cls['survived'])
for f in sorted(byf):
    c = byf[f]
    txt += "| `%s` | %d | %d | %d | %d |\n" % (f, c['nocompile'], c['suite-killed'], c['caught'], c['survived'])
txt += """
The suite is strict about the lock and commit code, so few mutants reach the
checks at all. Every survivor was read; none is a missed violation of a claimed
property:

"""
for w, n in reasons.most_common():
    txt += "* %d × %s\n" % (n, w)
if unan:
    txt += "\nNot yet analysed:\n\n"
    for r in unan:
        txt += "* `%s:%d` `%s` → `%s`\n" % (r['file'], r['line'], r.get('old', '')[:70], r.get('new', '')[:70])
txt += "\n"
p = V + '/DESIGN.md'
s = open(p).read()
start = s.find('### Systematic single-line mutants')
if start >= 0:
    end = s.find('\n## ', start)
    s = s[:start] + txt + s[end + 1:]
else:
    end = s.find('\n## 11.')
    s = s[:end + 1] + txt + s[end + 1:]
open(p, 'w').write(s)
print(cls, len(unan), "unanalysed")
