#!/bin/bash
# tools/run_seed.sh <seed id> "<props>" [budget s] : runs the named checks against a scratch worktree of /repo
# with /verif/seeded/<id>/patch.diff applied (through tools/mutate.py; result appended to tools/mutation_results.jsonl)
id=$1; props=$2; budget=${3:-40}
f=$(mktemp /tmp/runseed-XXXX.json)
python3 - "$id" "$props" > $f <<'PY'
import json,sys
print(json.dumps([{"name":sys.argv[1],"props":sys.argv[2].split(),"patch":"/verif/seeded/%s/patch.diff"%sys.argv[1],"suite":False}]))
PY
MUT_BUDGET=$budget python3 /verif/tools/mutate.py $f > /dev/null
python3 - "$id" <<'PY'
import sys,json
last=None
for l in open('/verif/tools/mutation_results.jsonl'):
    r=json.loads(l)
    if r['name']==sys.argv[1]: last=r
r=last
print(r['name'], r.get('error',''), {p:(c['rc'],c['wall'],[s[:90] for s in c['sigs'][:3]]) for p,c in r.get('checks',{}).items()})
PY
rm -f $f
