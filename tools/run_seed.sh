#!/bin/bash
# tools/run_seed.sh <seed id> "<props>" [budget s] : runs the named checks against a scratch worktree of /repo
# with /verif/seeded/<id>/patch.diff applied (through tools/mutate.py; result appended to tools/mutation_results.jsonl)
id=$1; props=$2; budget=${3:-40}
f=$(mktemp /tmp/runseed-XXXX.json)
python3 - "$id" "$props" > $f <<'PY'
import json,sys
print(json.dumps([{"name":sys.argv[1],"props":sys.argv[2].split(),"patch":"/verif/seeded/%s/patch.diff"%sys.argv[1],"suite":False}]))
PY
MUT_BUDGET=$budget python3 /verif/tools/mutate.py $f | python3 -c "
import sys,json
for l in sys.stdin:
    r=json.loads(l); print(r['name'], r.get('error',''), {p:(c['rc'],c['wall'],c['sigs'][:3]) for p,c in r.get('checks',{}).items()})
"
rm -f $f
