#!/usr/bin/env python3
"""Regenerates the 'Independent seeded changes' table of DESIGN.md from seeded/agent-*/meta.json."""
import json, glob, os
V = os.path.dirname(os.path.dirname(os.path.abspath(__file__)))
rows = []
missed = 0
for d in sorted(glob.glob(V + '/seeded/agent-*')):
    m = json.load(open(d + '/meta.json'))
    sigs = []
    for p, c in (m.get('checks_run') or {}).items():
        if c.get('rc') == 1:
            sigs += ["%s `%s`" % (p, s if len(s) < 70 else s[:67] + '...') for s in c.get('sigs', [])[:2]]
    h = m.get('history', '')
    first = any(k in h for k in ('MISSED', 'could not see', 'cannot produce', 'no statement of the workload', 'not reachable'))
    missed += first
    rows.append("| `%s` | %s | %s | %s%s |" % (os.path.basename(d), m['breaks_property'], m['what'][:240].replace('|', '/'),
                '; '.join(sigs)[:300] or ', '.join(m.get('caught_by') or []), ' — **first missed, check strengthened** (see `history` in meta.json)' if first else ''))
txt = """### Independent seeded changes (sub-agents)

%d changes were written by fresh sub-agents that saw only the text of one
property and a scratch worktree of /repo (nothing from /verif). Each compiles,
passes the repository's suite, and comes with a demonstration that fails with
it and passes without it (`seeded/<id>/demo`, logs of my own confirmation run
next to it). `meta.json` of each records what it needs to manifest and what I
ran. All of them are caught now - at the quick budget on an idle machine, with
two qualifications: on a loaded machine (several checks at once) the race-detector
build of C13 needs two to five times the budget, and `agent-c13c` (a race that needs
a worker parked inside one particular inner-join iteration) and `agent-c08i` (a
cancellation inside the Fix of one ALTER TABLE DROP) take 90-150 s of budget; %d were missed by the first
version of the respective check and led to a strengthening that is described
in the `history` field of their `meta.json` and summarised in §11.

| id | property | change | caught by |
|---|---|---|---|
""" % (len(rows), missed) + "\n".join(rows) + "\n\n"
s = open(V + '/DESIGN.md').read()
i = s.index('## 11. Deviations from the design')
if '### Independent seeded changes' in s:
    j = s.index('### Independent seeded changes')
    # the section ends at the next heading of any level
    import re
    m = re.search(r'\n##+ ', s[j + 10:])
    e = j + 10 + m.start() + 1 if m else i
    s = s[:j] + txt + s[e:]
else:
    s = s[:i] + txt + s[i:]
open(V + '/DESIGN.md', 'w').write(s)
print(len(rows), "changes,", missed, "first missed")
