#!/bin/bash
# tools/mut.sh <prop> <file-in-repo> <python-regex-or-literal old> <new> [vcheck args...]
# applies a one-off textual change to /repo, runs the quick check, restores /repo.
set -u
prop=$1; file=$2; old=$3; new=$4; shift 4
cd /repo || exit 9
if [ -n "$(git status --porcelain)" ]; then echo "repo dirty"; exit 9; fi
python3 - "$file" "$old" "$new" <<'P'
import sys
f,old,new=sys.argv[1:4]
s=open(f).read()
if s.count(old)!=1:
    print("pattern count", s.count(old)); sys.exit(3)
open(f,'w').write(s.replace(old,new))
P
rc=$?
if [ $rc -ne 0 ]; then git checkout -- .; exit $rc; fi
GOFLAGS=-mod=mod GOPROXY=off go build ./... || { git checkout -- .; echo "does not compile"; exit 4; }
cd /verif && ./vcheck "$prop" --no-evidence "$@"
rc=$?
git -C /repo checkout -- .
echo "mut rc=$rc"
