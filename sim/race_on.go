//go:build race

package sim

import "runtime"

// Parking and releasing goroutines through channels would create
// happens-before edges between every pair of simulated goroutines and hide
// csvq's races from the detector. While a goroutine is inside the scheduler
// its synchronisation events are ignored (memory accesses are still recorded).
func raceDisable() { runtime.RaceDisable() }
func raceEnable()  { runtime.RaceEnable() }

const RaceBuild = true
