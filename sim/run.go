package sim

import (
	"crypto/sha256"
	"encoding/hex"
	"fmt"
	"os"
	"path/filepath"
	"sort"
	"strconv"
	"strings"
	"testing"
	"testing/synctest"
	"time"

	"github.com/mithrandie/csvq/lib/query"
)

type FileState struct {
	Data  string `json:"data"`
	IsDir bool   `json:"is_dir,omitempty"`
}

type DirState map[string]FileState

func SnapshotDir(dir string) DirState {
	st := DirState{}
	_ = filepath.Walk(dir, func(p string, info os.FileInfo, err error) error {
		if err != nil || p == dir {
			return nil
		}
		rel, _ := filepath.Rel(dir, p)
		rel = maskRLock(rel)
		if info.IsDir() {
			st[rel] = FileState{IsDir: true}
			return nil
		}
		b, _ := os.ReadFile(p)
		st[rel] = FileState{Data: string(b)}
		return nil
	})
	return st
}

func (d DirState) Names() []string {
	l := make([]string, 0, len(d))
	for n := range d {
		l = append(l, n)
	}
	sort.Strings(l)
	return l
}

func (d DirState) String() string {
	var b strings.Builder
	for _, n := range d.Names() {
		fmt.Fprintf(&b, "%s[%d:%s] ", n, len(d[n].Data), shortHash(d[n].Data))
	}
	return b.String()
}

func IsControlFile(name string) bool {
	base := filepath.Base(name)
	return strings.HasPrefix(base, ".") && (strings.HasSuffix(base, ".lock") || strings.HasSuffix(base, ".rlock") || strings.HasSuffix(base, ".rl0ck") || strings.HasSuffix(base, ".temp"))
}

func shortHash(s string) string {
	h := sha256.Sum256([]byte(s))
	return hex.EncodeToString(h[:4])
}

type Violation struct {
	Prop   string `json:"prop"`
	Clause string `json:"clause"`
	Sig    string `json:"sig"`    // stable signature used for minimisation and known findings
	Detail string `json:"detail"` // human-readable
}

type RunResult struct {
	Log          []string          `json:"-"`
	LogHash      string            `json:"log_hash"`
	Procs        []*ProcResult     `json:"procs"`
	Decisions    []int             `json:"decisions"`
	Stats        RunStats          `json:"stats"`
	Hang         string            `json:"hang,omitempty"`
	LimitHit     bool              `json:"limit_hit,omitempty"`
	Final        DirState          `json:"-"`
	BubbleErr    string            `json:"bubble_err,omitempty"`
	TraceHash    string            `json:"trace_hash"` // hash of scheduling-relevant trace only
	PoolReissued int               `json:"pool_reissued"`
	DynReissued  int               `json:"dyn_pool_reissued,omitempty"` // re-issues by pools served through vhook.SPool (join record pools, ...)
	FinalIDs     map[string]fileID `json:"-"`
	StartIDs     map[string]fileID `json:"-"`
	ProcYields   []int             `json:"-"`
	StepHits     []map[string]int  `json:"-"`
}

var runCounter int

// BaseDir is where run directories are created (tmpfs when available).
var BaseDir string

func setupBase() {
	if BaseDir != "" {
		return
	}
	base := os.Getenv("VERIF_SCRATCH")
	if base == "" {
		base = "/dev/shm"
		if st, err := os.Stat(base); err != nil || !st.IsDir() {
			base = os.TempDir()
		}
	}
	// a name of constant length: csvq prints paths in boxes whose width follows
	// the path length (SHOW FIELDS), and outputs must not depend on the process
	var d string
	for i := 0; ; i++ {
		d = filepath.Join(base, fmt.Sprintf("verifsim-%07d-%08x", os.Getpid()%10000000, uint32(time.Now().UnixNano())+uint32(i)))
		err := os.Mkdir(d, 0700)
		if err == nil {
			break
		}
		if !os.IsExist(err) || i > 1000 {
			panic(err)
		}
	}
	BaseDir = d
	home := filepath.Join(d, "home")
	_ = os.MkdirAll(home, 0700)
	_ = os.Setenv("HOME", home)
	_ = os.Setenv("XDG_CONFIG_HOME", filepath.Join(home, ".config"))
	_ = os.Unsetenv("CSVQ_CONFIG")
	cwd := filepath.Join(d, "cwd")
	_ = os.MkdirAll(cwd, 0700)
	_ = os.Chdir(cwd)
}

func cleanupBase() {
	if BaseDir != "" {
		_ = os.RemoveAll(BaseDir)
	}
}

func writeFiles(dir string, files []FileSpec) error {
	for _, f := range files {
		p := filepath.Join(dir, f.Name)
		if f.Dir {
			if err := os.MkdirAll(p, 0755); err != nil {
				return err
			}
			continue
		}
		if err := os.MkdirAll(filepath.Dir(p), 0755); err != nil {
			return err
		}
		if f.LinkTo != "" {
			if err := os.Symlink(filepath.Join(dir, f.LinkTo), p); err != nil {
				return err
			}
			continue
		}
		if f.HardTo != "" {
			if err := os.Link(filepath.Join(dir, f.HardTo), p); err != nil {
				return err
			}
			continue
		}
		mode := os.FileMode(0644)
		if f.Mode != 0 {
			mode = os.FileMode(f.Mode)
		}
		if err := os.WriteFile(p, f.Bytes(), mode); err != nil {
			return err
		}
	}
	return nil
}

// Execute performs one simulated run of sc. obs are the property oracles.
func Execute(t *testing.T, sc *Scenario, dec *Decider, obs ...Observer) (*RunResult, *Kernel) {
	setupBase()
	runCounter++
	dir := filepath.Join(BaseDir, fmt.Sprintf("r%08d", runCounter))
	if err := os.MkdirAll(dir, 0755); err != nil {
		panic(err)
	}
	defer os.RemoveAll(dir)
	if err := writeFiles(dir, sc.Files); err != nil {
		panic(err)
	}

	// nothing of an earlier run may survive in the shared working directory
	if ents, err := os.ReadDir(filepath.Join(BaseDir, "cwd")); err == nil {
		for _, e := range ents {
			_ = os.RemoveAll(filepath.Join(BaseDir, "cwd", e.Name()))
		}
	}
	// (a program may change the working directory itself: CHDIR)
	defer func() { _ = os.Chdir(filepath.Join(BaseDir, "cwd")) }()
	if sc.Knobs.RelRepo {
		// simulated runs are executed one after the other, so the working
		// directory of the test process can stand for the one of the csvq process
		if err := os.Chdir(dir); err != nil {
			panic(err)
		}
	}
	startIDs := statFiles(dir, sc.Files)
	gm := query.GetGoroutineManager()
	gm.Count = 0
	if sc.Knobs.MinPerCore > 0 {
		gm.MinimumRequiredPerCore = sc.Knobs.MinPerCore
	} else {
		gm.MinimumRequiredPerCore = query.MinimumRequiredPerCPUCore
	}

	k := NewKernel(sc, dir, dec)
	k.obs = obs
	res := &RunResult{}
	// synctest.Test ends the calling goroutine (t.FailNow) when the race
	// detector reported something during the bubble; run it on a helper
	// goroutine so that the batch goes on and the report is picked up from the
	// race log.
	done := make(chan struct{})
	go func() {
		defer close(done)
		defer func() {
			if r := recover(); r != nil {
				res.BubbleErr = fmt.Sprint(r)
			}
		}()
		synctest.Test(t, func(t *testing.T) {
			k.Run()
		})
	}()
	stallFreeRun = sc.Knobs.FreeRun
	if stacks := waitBubble(done, k); stacks != "" {
		// The bubble is abandoned: its goroutines stay blocked (or spinning) until
		// the process ends, and nothing of the controller's state is read. The
		// batch stops after this evaluation (AbandonedRuns).
		AbandonedRuns++
		res.Hang = fmt.Sprintf("no scheduler turn for %v of REAL time: a simulated goroutine is blocked where no timer or other goroutine can release it (mutex never unlocked, spin, blocking system call)\n%s", realStallLimit(), stacks)
		res.Final = SnapshotDir(dir)
		res.StartIDs = startIDs
		res.FinalIDs = statFiles(dir, sc.Files)
		for range sc.Procs {
			res.Procs = append(res.Procs, &ProcResult{ErrText: "process did not finish", ExitCode: -1})
			res.ProcYields = append(res.ProcYields, 0)
			res.StepHits = append(res.StepHits, nil)
		}
		res.LogHash, res.TraceHash = "abandoned", "abandoned"
		return res, k
	}
	res.Log = k.log
	res.Decisions = dec.Vec
	res.Stats = k.Stats
	res.Hang = k.Hang
	res.LimitHit = k.LimitHit
	res.Final = SnapshotDir(dir)
	res.FinalIDs = statFiles(dir, sc.Files)
	res.StartIDs = startIDs
	res.PoolReissued = k.pool.Reissued
	res.DynReissued = k.pool.DynReissued
	for _, p := range k.procs {
		if p.res == nil {
			p.res = &ProcResult{ErrText: "process did not finish", ExitCode: -1}
		}
		res.Procs = append(res.Procs, p.res)
		for i := 0; i < p.res.StdoutFaults; i++ {
			res.Stats.fault("stdout-enospc")
		}
		res.ProcYields = append(res.ProcYields, p.yields)
		res.StepHits = append(res.StepHits, p.stepHits)
	}
	h := sha256.New()
	th := sha256.New()
	for _, l := range res.Log {
		h.Write([]byte(l))
		h.Write([]byte{'\n'})
		if !strings.HasPrefix(l, "ev ") && !strings.HasPrefix(l, "done ") {
			th.Write([]byte(l))
			th.Write([]byte{'\n'})
		}
	}
	for _, p := range res.Procs {
		fmt.Fprintf(h, "%d|%s|%s|%s\n", p.ExitCode, p.ErrText, p.Stdout, p.Stderr)
	}
	for _, n := range res.Final.Names() {
		fmt.Fprintf(h, "%s=%s\n", n, res.Final[n].Data)
	}
	res.LogHash = hex.EncodeToString(h.Sum(nil)[:12])
	res.TraceHash = hex.EncodeToString(th.Sum(nil)[:12])
	if KeepLogs {
		LastLogs = append(LastLogs, append([]string{}, res.Log...))
	}
	if d := os.Getenv("VERIF_DUMP_LOGS"); d != "" {
		_ = os.WriteFile(filepath.Join(d, fmt.Sprintf("run-%06d.log", runCounter)), []byte(strings.Join(res.Log, "\n")+"\n"), 0644)
	}
	return res, k
}

// KeepLogs makes Execute keep the event log of every run in LastLogs (used by
// the determinism re-check to show where two executions part).
var KeepLogs bool
var LastLogs [][]string

// AbandonedRuns counts simulated runs given up by the real-time watchdog.
var AbandonedRuns int

func realStallLimit() time.Duration {
	d := 30 * time.Second
	if v, err := strconv.Atoi(os.Getenv("VERIF_REAL_STALL_S")); err == nil && v > 0 {
		d = time.Duration(v) * time.Second
	}
	if RaceBuild {
		d *= 10 // the race detector slows csvq down by an order of magnitude
	}
	if stallFreeRun {
		d *= 40 // a free-running pass is one single controller turn for the whole program
	}
	return d
}

var stallFreeRun bool

// waitBubble waits for the bubble to end. It runs outside the bubble, so its
// ticker is real time. If the controller has not had a turn for the stall
// limit it returns the stacks of the simulated goroutines that are not parked
// at a yield point; "" when the bubble ended.
func waitBubble(done chan struct{}, k *Kernel) string {
	tick := time.NewTicker(time.Second)
	defer tick.Stop()
	last, since := int64(-1), time.Now()
	for {
		select {
		case <-done:
			return ""
		case <-tick.C:
			if cur := k.progress.Load(); cur != last {
				last, since = cur, time.Now()
			} else if time.Since(since) > realStallLimit() {
				st := blockedStacks()
				if st == "" {
					st = "(no simulated goroutine inside csvq code found)"
				}
				return st
			}
		}
	}
}
