package sim

import (
	"encoding/csv"
	"fmt"
	"regexp"
	"sort"
	"strings"
	"testing"

	"github.com/mithrandie/csvq/lib/query"
)

// C14: evaluation never changes what it only reads: pooled values, shared
// syntax trees, cached tables.
//
// One process is driven statement by statement (one syntax tree per statement,
// executed twice where the statement only reads). The same scenario runs under
// every policy of the simulated allocator:
//
//	fresh   never recycle (reference semantics)
//	lifo    re-issue the most recently released object at the next request
//	fifo    re-issue the oldest released object
//	random  seeded choice
//	poison  overwrite released objects, never re-issue (not a legal sync.Pool
//	        behaviour: differences are counted as latent, not reported)
//
// Oracles: (1) fresh == lifo == fifo == random in every output byte and in the
// committed files; (2) the printable form of every statement is the same before
// and after its execution; (3) first and second execution of a reading
// statement print the same; (4) a prefix of reading statements does not change
// what the following statement does (cached tables, variables).

var c14Exprs = []string{
	"UPPER(s)", "LOWER(s)", "TRIM(s)", "LTRIM(s)", "RTRIM(s)", "LEN(s)", "BYTE_LEN(s)", "WIDTH(s)", "LPAD(s, 8, '*')", "RPAD(s, 6, '-')",
	"SUBSTRING(s, 1, 2)", "SUBSTR(s, 1, 2)", "INSTR(s, 'a')", "LIST_ELEM(s, 'a', 0)", "REPLACE(s, 'a', 'b')", "REGEXP_MATCH(s, '^a')",
	"REGEXP_FIND(s, '[a-z]+')", "REGEXP_REPLACE(s, '[aeiou]', '_')", "TITLE_CASE(s)", "FORMAT('%s-%s', s, v)", "ABS(v)", "CEIL(v / 3)",
	"FLOOR(v / 3)", "ROUND(v / 3.0, 2)", "SQRT(ABS(v))", "POW(v, 2)", "BIN(id)", "OCT(id)", "HEX(id)", "ENOTATION(v)", "COALESCE(v, id)",
	"IF(v > 0, s, 'neg')", "IFNULL(v, 0)", "NULLIF(v, 5)", "STRING(v)", "INTEGER(s)", "FLOAT(v)", "BOOLEAN(v)", "TERNARY(v)",
	"YEAR(@d)", "ADD_DAY(@d, id)", "DATE_DIFF(@d, DATETIME('2012-01-01'))", "DATETIME_FORMAT(ADD_HOUR(@d, v), '%Y-%m-%d %H')",
	"MD5(s)", "SHA1(s)", "BASE64_ENCODE(s)", "HEX_ENCODE(s)", "s || '-' || v", "v * 2 + id", "-v", "v % 2", "CASE WHEN v > 0 THEN s ELSE 'n' END",
	"v BETWEEN 0 AND 9", "s LIKE '%a%'", "v IN (5, 6)", "v IS NULL", "NOT (v > 1)", "TRUNC_MONTH(@d)", "NUMBER_FORMAT(v * 1000.5, 2, '.', ',')",
	"JSON_OBJECT(id, s)", "@x || s", "v + @n", "v * @f", "COALESCE(@u, s)", "UPPER(@x)", "f(v, @n)", "LPAD(STRING(v + @n), 5, '0')",
	"FLOAT(v) / 7", "INTEGER(v / 2.0)", "STRING(id) || STRING(g)", "LOWER(UPPER(TRIM(s)))", "ROUND(@f * id, 1)", "DATETIME(STRING(@d))",
	"UNIX_TIME(@d) + id", "IF(s = 'cat', NULL, s)", "v = @n", "s < @x", "ABS(v) > id OR s IS NULL",
}

const c14Prelude = `DECLARE f FUNCTION (@p, @q) AS BEGIN IF @p IS NULL THEN RETURN @q; END IF; VAR @t := @p * 2; RETURN @t + @q; END;
DECLARE usum AGGREGATE (list, @init DEFAULT 0) AS BEGIN VAR @t := @init; VAR @e; WHILE @e IN list DO IF @e IS NOT NULL THEN @t := @t + @e; END IF; END WHILE; RETURN @t; END;
VAR @x := 'dog'; VAR @n := 5; VAR @f := 2.5; VAR @d := DATETIME('2012-02-03 09:18:15'); VAR @u;
DECLARE tv VIEW AS SELECT * FROM a;`

type c14Stmt struct {
	Src    string `json:"src"`
	Repeat int    `json:"repeat"`
	Reads  bool   `json:"reads"` // only reads tables and variables
}

type c14Meta struct {
	Alt   []c14Stmt `json:"alt,omitempty"` // kind equiv: a program that must behave like Stmts (loops unrolled, placeholders and variables written out)
	Stmts []c14Stmt `json:"stmts"`
	NA    int       `json:"na"`
	NB    int       `json:"nb"`
	Kind  string    `json:"kind"` // mixed | prefix (reading prefix + one final changing block)
	// kind sibling: Alt[0] is Stmts[0] with further expressions between its first
	// SibHead and last SibTail select fields
	SibHead int `json:"sib_head,omitempty"`
	SibTail int `json:"sib_tail,omitempty"`
}

func exprList(r *Rng, n int) string {
	var l []string
	for i := 0; i < n; i++ {
		l = append(l, fmt.Sprintf("%s AS c%d", c14Exprs[r.Intn(len(c14Exprs))], i))
	}
	return strings.Join(l, ", ")
}

func genC14Stmt(r *Rng, reading bool) c14Stmt {
	for {
		switch k := r.Intn(40); {
		case k == 39:
			// parameters with default expressions (evaluated at every call that leaves the argument out)
			return c14Stmt{Src: r.PickS(
				"DECLARE fd FUNCTION (@a, @b DEFAULT @a * 2) AS BEGIN RETURN @a + @b; END; PRINT fd(1); PRINT fd(10); PRINT fd(1); PRINT fd(1, 1); DISPOSE FUNCTION fd;",
				"DECLARE fe FUNCTION (@a DEFAULT @n + 1, @b DEFAULT UPPER(@x)) AS BEGIN RETURN STRING(@a) || @b; END; PRINT fe(); VAR @keep := @n; @n := @n + 5; PRINT fe(); @n := @keep; DISPOSE @keep; PRINT fe(2); DISPOSE FUNCTION fe;",
				"DECLARE ff FUNCTION (@a, @b DEFAULT (SELECT MAX(v) FROM a WHERE id <= @a)) AS BEGIN RETURN @b; END; SELECT id, ff(id) FROM a ORDER BY id LIMIT 4; PRINT ff(2); DISPOSE FUNCTION ff;",
				"DECLARE ag AGGREGATE (@vals, @w DEFAULT @n * 2) AS BEGIN VAR @t := 0; VAR @e; WHILE @e IN @vals DO @t := @t + IFNULL(@e, 0) * @w; END WHILE; RETURN @t; END; SELECT ag(v) FROM a; SELECT ag(v, 1) FROM a; SELECT g, ag(v) FROM a GROUP BY g; DISPOSE FUNCTION ag;"), Repeat: 2, Reads: true}
		case k == 37 || k == 38:
			// outer joins: the record a join hands on (matched, or padded with NULLs) comes from the join's own
			// record pool and must not go back to it
			return c14Stmt{Src: r.PickS(
				"SELECT a.id, b.id, b.w FROM a FULL OUTER JOIN b ON a.id = b.id AND b.w > 3 ORDER BY a.id, b.id;",
				"SELECT a.id, a.s, b.w FROM a LEFT OUTER JOIN b ON a.g = b.g AND a.v < b.w ORDER BY a.id, b.w;",
				"SELECT b.id, b.w, a.s FROM a RIGHT OUTER JOIN b ON a.id = b.id + 1 ORDER BY b.id, a.s;",
				"VAR @o := 0; WHILE @o < 2 DO SELECT COUNT(*), COUNT(a.id), COUNT(b.id), SUM(b.w) FROM a FULL OUTER JOIN b ON a.id = b.id + @o; @o := @o + 1; END WHILE; DISPOSE @o;",
				"PREPARE po FROM 'SELECT a.id, b.w FROM a FULL OUTER JOIN b ON a.id = b.id AND IFNULL(a.v, 0) > ? ORDER BY a.id, b.w'; EXECUTE po USING 0; EXECUTE po USING 4; EXECUTE po USING 0; DISPOSE PREPARE po;",
				"SELECT x.id, y.id, z.id FROM a x LEFT OUTER JOIN a y ON x.id = y.id - 1 FULL OUTER JOIN b z ON y.id = z.id ORDER BY x.id, y.id, z.id;",
				"SELECT id, (SELECT COUNT(y.id) FROM b x FULL OUTER JOIN b y ON x.id = y.id + 1 AND x.g = a.g) AS n FROM a ORDER BY id;",
				"SELECT a.id, b.w FROM a JOIN b ON a.g = b.g AND a.id <> b.id WHERE a.id < 6 ORDER BY a.id, b.w, b.id;"), Repeat: 2, Reads: true}
		case k == 35 || k == 36:
			// comma-separated FROM lists (folded into cross joins when the view is loaded), evaluated more than once
			return c14Stmt{Src: r.PickS(
				"SELECT a.id, b.w FROM a, b WHERE a.id = b.id ORDER BY a.id, b.w;",
				"PREPARE pc FROM 'SELECT COUNT(*) FROM a x, b y WHERE x.g = y.g AND IFNULL(x.v, 0) > ?'; EXECUTE pc USING 0; EXECUTE pc USING 5; EXECUTE pc USING 0; DISPOSE PREPARE pc;",
				"VAR @q := 0; WHILE @q < 2 DO SELECT COUNT(*) FROM (SELECT id FROM a WHERE id < 4) p, (SELECT id FROM b) q; @q := @q + 1; END WHILE; DISPOSE @q;",
				"SELECT id, (SELECT COUNT(*) FROM b y, b z WHERE y.g = a.g AND z.id = y.id) AS n FROM a ORDER BY id;",
				"DECLARE fc FUNCTION (@k) AS BEGIN RETURN (SELECT COUNT(*) FROM a x, a y WHERE x.g = y.g AND x.id < @k); END; PRINT fc(3); PRINT fc(5); PRINT fc(3); DISPOSE FUNCTION fc;",
				"DECLARE cc CURSOR FOR SELECT x.id, y.w FROM a x, b y WHERE x.id = y.id ORDER BY x.id, y.w; OPEN cc; VAR @r1, @r2; FETCH cc INTO @r1, @r2; CLOSE cc; OPEN cc; FETCH cc INTO @r1, @r2; PRINT @r1; CLOSE cc; DISPOSE CURSOR cc; DISPOSE @r1; DISPOSE @r2;",
				"WITH RECURSIVE n (i) AS (SELECT 1 UNION ALL SELECT i + 1 FROM n, (SELECT 1 AS one) o WHERE i < 4) SELECT i FROM n;",
				"SELECT a.id, t.c FROM a, LATERAL (SELECT COUNT(*) AS c FROM b, (SELECT 1 AS k) o WHERE b.g = a.g) t ORDER BY a.id;",
				"SELECT x.id, y.id, z.id FROM a x, a y, b z WHERE x.id = y.id AND y.id = z.id ORDER BY x.id, z.w;"), Repeat: 2, Reads: true}
		case k == 33:
			// flags set from variables, literals, cells and expressions: the values are only read
			return c14Stmt{Src: "SET @@LIMIT_RECURSION TO @n; SET @@WAIT_TIMEOUT TO @f; SET @@TIMEZONE TO 'UTC'; SET @@JSON_QUERY TO (SELECT s FROM a WHERE id = 1); PRINT @n + 1; PRINT @f * 2; PRINT @x || 'z'; SET @@JSON_QUERY TO ''; SHOW @@LIMIT_RECURSION;", Repeat: 2, Reads: true}
		case k == 34:
			return c14Stmt{Src: "VAR @w := 0; WHILE @w < 3 DO SET @@LIMIT_RECURSION TO 7; PRINT 20 + 22 + @w; ADD '%d.%m.%Y' TO @@DATETIME_FORMAT; PRINT 'fmt' || STRING(@w); REMOVE '%d.%m.%Y' FROM @@DATETIME_FORMAT; @w := @w + 1; END WHILE; DISPOSE @w; SET @@WAIT_TIMEOUT TO @n + 3;", Repeat: 2, Reads: true}
		case k == 30:
			// reading statements that fail in one of their clauses: what they had set up (scopes, inline tables, aliases) must be gone afterwards
			return c14Stmt{Src: r.PickS("SELECT id FROM a x ORDER BY id LIMIT 1 OFFSET 'abc';", "SELECT id FROM a LIMIT 'x';", "WITH w AS (SELECT id FROM a) SELECT w.id FROM w ORDER BY id OFFSET @u + 'q';",
				"SELECT id FROM a ORDER BY nosuch;", "WITH w AS (SELECT nosuch FROM a) SELECT * FROM w;", "SELECT id FROM a GROUP BY g HAVING nosuch > 1;", "SELECT a.id FROM a JOIN b ON a.id = b.nosuch;"), Repeat: 2, Reads: true}
		case k == 31:
			// nested queries whose scopes come from the pool of query scopes
			return c14Stmt{Src: "SELECT id FROM a WHERE id IN (SELECT id FROM a WHERE id > 1) ORDER BY id; WITH a2 AS (SELECT id, g FROM a WHERE id > 1) SELECT b.id, (SELECT COUNT(*) FROM (SELECT id FROM a2) s) AS n FROM b ORDER BY b.id;", Repeat: 2, Reads: true}
		case k == 32:
			return c14Stmt{Src: "SELECT x.id, (SELECT MAX(y.v) FROM a y WHERE y.g = x.g) FROM a x WHERE EXISTS (SELECT 1 FROM b z WHERE z.id = x.id) ORDER BY x.id LIMIT 5;", Repeat: 2, Reads: true}
		case k == 28:
			return c14Stmt{Src: "SELECT COUNT(*) FROM a; SHOW TABLES; SHOW VIEWS; SHOW FUNCTIONS; SHOW FIELDS FROM a;", Repeat: 2, Reads: true}
		case k == 29:
			return c14Stmt{Src: "EXECUTE 'SELECT id, v + %s FROM a WHERE s <> %s ORDER BY id LIMIT 3' USING @n, @x; PRINTF '%s/%s/%s' USING @x, @n, @d;", Repeat: 2, Reads: true}
		case k == 22:
			return c14Stmt{Src: "SELECT id, v FROM a WHERE v IN (5, 6, 2 + 1, @n) OR s IN ('ant', UPPER('dog'), @x) ORDER BY v DESC, id LIMIT 3 OFFSET 1;", Repeat: 2, Reads: true}
		case k == 23:
			return c14Stmt{Src: "SELECT id FROM a ORDER BY id LIMIT 50 PERCENT; SELECT id, v FROM a ORDER BY v, id LIMIT 1 + 1 WITH TIES; SELECT id FROM a ORDER BY id LIMIT @n OFFSET @n - 4;", Repeat: 2, Reads: true}
		case k == 24:
			return c14Stmt{Src: "DECLARE c2 CURSOR FOR SELECT v, s FROM a ORDER BY id; OPEN c2; VAR @p, @q; FETCH c2 INTO @p, @q; @p := @p + 100; @q := @q || 'zz'; PRINT @p; FETCH FIRST c2 INTO @p, @q; PRINT @p; PRINT @q; FETCH LAST c2 INTO @p, @q; PRINT @q; CLOSE c2; DISPOSE CURSOR c2; DISPOSE @p; DISPOSE @q;", Repeat: 2, Reads: true}
		case k == 25:
			return c14Stmt{Src: "DECLARE tl VIEW (k, c); VAR @j := 0; WHILE @j < 2 DO INSERT INTO tl VALUES (1, 'lit'), (2 + @j, 'lit' || 'b'); UPDATE tl SET c = c || 'x', k = k + 10; @j := @j + 1; END WHILE; SELECT * FROM tl; DISPOSE VIEW tl; DISPOSE @j;", Repeat: 2, Reads: true}
		case k == 26:
			return c14Stmt{Src: "SELECT id AS k, v AS val, s AS id FROM a WHERE v > 0; SELECT x.id AS v FROM a x ORDER BY x.id DESC LIMIT 2;", Repeat: 2, Reads: true}
		case k == 27:
			return c14Stmt{Src: "PREPARE st2 FROM 'SELECT id, v FROM a WHERE v IN (?, ?, 3) AND s <> ? ORDER BY id LIMIT ?'; EXECUTE st2 USING 5, 6, 'cat', 2; EXECUTE st2 USING @n, 1, @x, 5; EXECUTE st2 USING 5, 6, 'cat', 2; DISPOSE PREPARE st2;", Repeat: 2, Reads: true}
		case k < 5:
			return c14Stmt{Src: fmt.Sprintf("SELECT id, %s FROM a;", exprList(r, r.Range(2, 6))), Repeat: 2, Reads: true}
		case k == 5:
			return c14Stmt{Src: fmt.Sprintf("SELECT id, %s FROM a WHERE %s ORDER BY %s, id;", exprList(r, 2), genCond(r, "", 4), c14Exprs[r.Intn(30)]), Repeat: 2, Reads: true}
		case k == 6:
			return c14Stmt{Src: "SELECT g, COUNT(*), SUM(v + @n), MIN(UPPER(s)), MAX(v * @f), LISTAGG(TRIM(s), ',') WITHIN GROUP (ORDER BY id), usum(v) FROM a GROUP BY g;", Repeat: 2, Reads: true}
		case k == 7:
			return c14Stmt{Src: "SELECT id, COUNT(*) OVER (PARTITION BY g) AS cnt, SUM(v) OVER (PARTITION BY g ORDER BY id) AS rs, LAG(UPPER(s)) OVER (ORDER BY id) AS lg, ROW_NUMBER() OVER (PARTITION BY g ORDER BY v, id) AS rn FROM a;", Repeat: 2, Reads: true}
		case k == 8:
			return c14Stmt{Src: "SELECT a.id, b.w, a.s || STRING(b.w) FROM a JOIN b ON a.id = b.id WHERE b.w + @n > 3;", Repeat: 2, Reads: true}
		case k == 9:
			return c14Stmt{Src: "SELECT t.g, t.c FROM (SELECT g, COUNT(*) AS c FROM a GROUP BY g) t WHERE t.c > 0;", Repeat: 2, Reads: true}
		case k == 10:
			return c14Stmt{Src: "SELECT id, (SELECT MAX(w) FROM b WHERE b.g = a.g) AS mw, f(v, id) FROM a WHERE id IN (SELECT id FROM b);", Repeat: 2, Reads: true}
		case k == 11:
			return c14Stmt{Src: "PRINT @x; PRINT @n; PRINT @f; PRINT @d; PRINT @u; PRINT f(@n, 1);", Repeat: 2, Reads: true}
		case k == 12:
			return c14Stmt{Src: "DECLARE cur CURSOR FOR SELECT UPPER(s), v + @n FROM a ORDER BY id; OPEN cur; VAR @c1, @c2; WHILE @c1, @c2 IN cur DO PRINT @c1 || '/' || STRING(@c2); END WHILE; CLOSE cur; DISPOSE CURSOR cur; DISPOSE @c1; DISPOSE @c2;", Repeat: 2, Reads: true}
		case k == 13:
			return c14Stmt{Src: "PREPARE st FROM 'SELECT id, s || ?, v + ? FROM a WHERE v > ?'; EXECUTE st USING 'x', 1, 0; EXECUTE st USING 'yy', @n, -100; EXECUTE st USING 'x', 1, 0; DISPOSE PREPARE st;", Repeat: 2, Reads: true}
		case k == 14:
			return c14Stmt{Src: "VAR @i := 0; WHILE @i < 3 DO SELECT @i, COUNT(*), SUM(v * @i), MAX(s || STRING(@i)) FROM a; @i := @i + 1; END WHILE; DISPOSE @i;", Repeat: 2, Reads: true}
		case k == 15:
			return c14Stmt{Src: "SELECT DISTINCT g, v % 3, UPPER(TRIM(s)) FROM a UNION SELECT g, w % 3, 'B' FROM b;", Repeat: 2, Reads: true}
		case reading:
			continue
		case k == 16:
			return c14Stmt{Src: "@n := @n + 1; @x := @x || 'g'; @f := @f * 2;", Repeat: 1}
		case k == 17:
			return c14Stmt{Src: fmt.Sprintf("UPDATE a SET v = v + @n, s = UPPER(s) WHERE %s;", genCond(r, "", 4)), Repeat: 1}
		case k == 18:
			return c14Stmt{Src: "INSERT INTO a VALUES (9001, 1, @n, @x), (9002, 2, NULL, LOWER('ABC'));", Repeat: 1}
		case k == 19:
			return c14Stmt{Src: "DELETE FROM a WHERE id % 5 = 0;", Repeat: 1}
		case k == 20:
			return c14Stmt{Src: "REPLACE INTO a (id, g, v, s) USING (id) SELECT id, g, w, 'rep' FROM b;", Repeat: 1}
		default:
			return c14Stmt{Src: "UPDATE a SET v = (SELECT MAX(w) FROM b WHERE b.g = a.g) WHERE v IS NULL;", Repeat: 1}
		}
	}
}

// genEquivPair returns two programs that must leave the same table and print
// the same final dump: one re-executes a syntax tree with changing variables or
// placeholder values (loop, prepared statement, user-defined function), the
// other spells every execution out with literals.
func genEquivPair(r *Rng) ([]string, []string) {
	k1, k2, k3 := 1+r.Intn(3), 4+r.Intn(3), 7+r.Intn(3)
	w := func(i int) string { return []string{"one", "two", "three", "four"}[i%4] }
	switch r.Intn(10) {
	case 7:
		// a cursor's rows are fixed at OPEN: an UPDATE of the table in between does not change what FETCH returns
		pre := "UPDATE a SET v = v WHERE id = -1; DECLARE cq CURSOR FOR SELECT id, v FROM a ORDER BY id; OPEN cq; VAR @a1, @a2, @b1, @b2;"
		post := "CLOSE cq; DISPOSE CURSOR cq; INSERT INTO a VALUES (9100, 0, @a2, 'c1'), (9101, 0, @b2, 'c2'); DISPOSE @a1; DISPOSE @a2; DISPOSE @b1; DISPOSE @b2;"
		return []string{pre + " UPDATE a SET v = IFNULL(v, 0) + 1000; FETCH cq INTO @a1, @a2; FETCH cq INTO @b1, @b2; " + post},
			[]string{pre + " FETCH cq INTO @a1, @a2; FETCH cq INTO @b1, @b2; UPDATE a SET v = IFNULL(v, 0) + 1000; " + post}
	case 8:
		// every SET expression sees the row as it was before the statement
		return []string{"UPDATE a SET v = g, g = v;"},
			[]string{"ALTER TABLE a ADD oldv DEFAULT v; UPDATE a SET v = g; UPDATE a SET g = oldv; ALTER TABLE a DROP oldv;"}
	case 9:
		// ... and a sub-query on the updated table sees the table as it was
		return []string{"UPDATE a SET v = (SELECT MAX(v) FROM a) + id;"},
			[]string{"VAR @mx := (SELECT MAX(v) FROM a); UPDATE a SET v = @mx + id; DISPOSE @mx;"}
	case 0:
		return []string{"PREPARE up FROM 'UPDATE a SET s = ? WHERE id = ?'; EXECUTE up USING '" + w(k1) + "', " + fmt.Sprint(k1) + "; EXECUTE up USING '" + w(k2) + "', " + fmt.Sprint(k2) + "; EXECUTE up USING @x, " + fmt.Sprint(k3) + "; DISPOSE PREPARE up;"},
			[]string{fmt.Sprintf("UPDATE a SET s = '%s' WHERE id = %d; UPDATE a SET s = '%s' WHERE id = %d; UPDATE a SET s = 'dog' WHERE id = %d;", w(k1), k1, w(k2), k2, k3)}
	case 1:
		return []string{"VAR @k := 1; WHILE @k < 4 DO UPDATE a SET v = @k WHERE id = @k; @k := @k + 1; END WHILE; DISPOSE @k;"},
			[]string{"UPDATE a SET v = 1 WHERE id = 1; UPDATE a SET v = 2 WHERE id = 2; UPDATE a SET v = 3 WHERE id = 3;"}
	case 2:
		return []string{"DECLARE setval FUNCTION (@id, @val) AS BEGIN UPDATE a SET s = @val, v = @id WHERE id = @id; RETURN @id; END;", fmt.Sprintf("PRINT setval(%d, 'x'); PRINT setval(%d, 'y'); PRINT setval(%d, @x);", k1, k2, k3)},
			[]string{fmt.Sprintf("UPDATE a SET s = 'x', v = %d WHERE id = %d; UPDATE a SET s = 'y', v = %d WHERE id = %d; UPDATE a SET s = 'dog', v = %d WHERE id = %d;", k1, k1, k2, k2, k3, k3)}
	case 3:
		return []string{"PREPARE ins FROM 'INSERT INTO a VALUES (?, ?, ?, ?)'; EXECUTE ins USING 7001, 1, 11, 'p'; EXECUTE ins USING 7002, 2, @n, @x; EXECUTE ins USING 7003, 1, 11, 'p'; DISPOSE PREPARE ins;"},
			[]string{"INSERT INTO a VALUES (7001, 1, 11, 'p'); INSERT INTO a VALUES (7002, 2, 5, 'dog'); INSERT INTO a VALUES (7003, 1, 11, 'p');"}
	case 4:
		return []string{fmt.Sprintf("VAR @lo := %d; VAR @j := 0; WHILE @j < 2 DO DELETE FROM a WHERE id = @lo + @j; UPDATE a SET v = @lo WHERE id = @lo + @j + 2; @j := @j + 1; END WHILE; DISPOSE @lo; DISPOSE @j;", k1)},
			[]string{fmt.Sprintf("DELETE FROM a WHERE id = %d; UPDATE a SET v = %d WHERE id = %d; DELETE FROM a WHERE id = %d; UPDATE a SET v = %d WHERE id = %d;", k1, k1, k1+2, k1+1, k1, k1+3)}
	case 5:
		return []string{"DECLARE cu CURSOR FOR SELECT id, v FROM a WHERE id < 4 ORDER BY id; OPEN cu; VAR @ci, @cv; WHILE @ci, @cv IN cu DO UPDATE a SET s = STRING(@cv) || '!' WHERE id = @ci; END WHILE; CLOSE cu; DISPOSE CURSOR cu; DISPOSE @ci; DISPOSE @cv;"},
			[]string{"UPDATE a SET s = STRING(v) || '!' WHERE id < 4;"}
	default:
		return []string{"VAR @t := 'q'; REPLACE INTO a (id, g, v, s) USING (id) VALUES (1, 0, @n, @t); @t := 'r'; @n := @n + 1; REPLACE INTO a (id, g, v, s) USING (id) VALUES (2, 0, @n, @t); @n := 5; DISPOSE @t;"},
			[]string{"REPLACE INTO a (id, g, v, s) USING (id) VALUES (1, 0, 5, 'q'); REPLACE INTO a (id, g, v, s) USING (id) VALUES (2, 0, 6, 'r');"}
	}
}

// sibExpr: an expression over the columns of a that only reads them.
func sibExpr(r *Rng) string {
	ensureFnNames()
	plain := []string{"id", "g", "v", "s", "s", "v"}
	switch k := r.Intn(20); {
	case k < 6:
		return c14Exprs[r.Intn(len(c14Exprs))]
	case k < 12:
		a := []string{plain[r.Intn(len(plain))]}
		for i, n := 0, r.Pick(0, 0, 1, 1, 2); i < n; i++ {
			a = append(a, r.PickS("2", "'%Y-%m-%d'", "'a'", "1", "g", "s", "0", "@n", "@x", "id", "v"))
		}
		return fmt.Sprintf("%s(%s)", builtinNames[r.Intn(len(builtinNames))], strings.Join(a, ", "))
	case k < 15:
		// functions that build a working view from the current record
		return r.PickS("JSON_OBJECT(s)", "JSON_OBJECT(v, s)", "JSON_OBJECT(s, g)", "JSON_OBJECT(g AS k, s AS w)", "JSON_OBJECT(v)", "JSON_OBJECT(s AS id)", "JSON_OBJECT(id, g, v, s)", "JSON_OBJECT(g, id)")
	case k < 17:
		return r.PickS("(SELECT MAX(w) FROM b WHERE b.g = a.g)", "(SELECT COUNT(*) FROM b WHERE b.id > a.id)", "f(v, id)", "f(g, v)", "CASE WHEN v > 0 THEN s ELSE STRING(g) END", "COALESCE(v, g, id)")
	case k < 19:
		return r.PickS("s || STRING(g)", "g + v * id", "UPPER(s) || LOWER(s)", "v IS NULL OR g > 1", "(g, v) = (1, 2)", "s IN (SELECT 'cat' FROM b)", "v BETWEEN g AND id", "IF(g > 1, s, v)")
	default:
		return r.PickS("(SELECT s FROM a x WHERE x.id = a.id)", "EXISTS (SELECT 1 FROM b WHERE b.g = a.g)", "v > ANY (SELECT w FROM b)", "(SELECT JSON_OBJECT(s, v) FROM a y WHERE y.id = a.id)")
	}
}

// genSiblingPair returns a reading statement, the same statement with further
// expressions in it, and how many leading and trailing result columns the two
// have in common. Evaluating the additional expressions only reads the row, so
// the common columns must print the same (oracle 7).
func genSiblingPair(r *Rng) (string, string, int, int) {
	ensureFnNames()
	exprs := func(n int, pfx string) string {
		var l []string
		for i := 0; i < n; i++ {
			l = append(l, fmt.Sprintf("%s AS %s%d", sibExpr(r), pfx, i))
		}
		return strings.Join(l, ", ")
	}
	cond := ""
	if r.Bool(0.3) {
		cond = " WHERE " + genCond(r, "", 4)
	}
	switch r.Intn(16) {
	case 14, 15:
		// an analytic function on its own against the same function next to another one over the very same
		// window: what the neighbour does with the partition (sort it, walk it backwards) is its own business
		win := fmt.Sprintf("PARTITION BY %s ORDER BY %s", r.PickS("g", "id % 3", "s", "g"), r.PickS("id", "v, id", "s, id", "id DESC", "id"))
		if r.Bool(0.15) {
			win = "ORDER BY " + r.PickS("id", "v, id", "id DESC")
		}
		fa := func() string {
			return r.PickS("ROW_NUMBER()", "RANK()", "DENSE_RANK()", "LAG(v)", "LEAD(v)", "FIRST_VALUE(s)", "LAST_VALUE(s)", "NTH_VALUE(v, 2)", "NTILE(2)", "LISTAGG(s, ',')", "SUM(v)", "COUNT(*)",
				"JSON_AGG(v)", "CUME_DIST()", "PERCENT_RANK()", "LEAD(s, 2)", "LAG(s, 2, 'x')", "MAX(v)", "LEAD(v, 1, 0)", "LAST_VALUE(v) IGNORE NULLS", "FIRST_VALUE(v) IGNORE NULLS", "MIN(s)", "AVG(v)", "MEDIAN(v)")
		}
		a, b := fa(), fa()
		if r.Bool(0.35) {
			// a plain query against the same query with an analytic column whose window is ordered by the
			// column the statement itself is ordered by (in the other direction): the statement's own ORDER BY
			// is applied whatever the window left behind
			col := r.PickS("s", "v", "id", "g")
			return fmt.Sprintf("SELECT id, %s FROM a ORDER BY %s DESC, id DESC;", col, col),
				fmt.Sprintf("SELECT id, %s, %s OVER (ORDER BY %s) AS wa FROM a ORDER BY %s DESC, id DESC;", col, r.PickS("RANK()", "ROW_NUMBER()", "DENSE_RANK()", "LAG(id)", "COUNT(*)", "FIRST_VALUE(id)"), col, col), 2, 0
		}
		base := fmt.Sprintf("SELECT id, %s OVER (%s) AS wa FROM a ORDER BY id;", a, win)
		if r.Bool(0.5) {
			return base, fmt.Sprintf("SELECT id, %s OVER (%s) AS wa, %s OVER (%s) AS wb FROM a ORDER BY id;", a, win, b, win), 2, 0
		}
		return base, fmt.Sprintf("SELECT id, %s OVER (%s) AS wb, %s OVER (%s) AS wa FROM a ORDER BY id;", b, win, a, win), 1, 1
	case 12, 13:
		// one syntax tree evaluated before and after the table changed its shape (a column
		// added in front, a view declared again with its columns in another order) against
		// the same statements parsed afresh: what a tree resolved once must not be reused
		// for a view whose columns sit elsewhere. The expression names many columns, so
		// that per-scope caches leave their small-table mode.
		e9 := "STRING(id) || STRING(g) || IFNULL(STRING(v), STRING(0)) || s || STRING(id + 1) || STRING(g + 1) || IFNULL(STRING(v), STRING(1)) || UPPER(s) || STRING(id + 2) || LOWER(s)"
		if r.Bool(0.3) {
			e9 = "STRING(id) || s || STRING(g)"
		}
		alter, restore := "ALTER TABLE a ADD c0 DEFAULT 7 FIRST;", "ALTER TABLE a DROP c0;"
		if r.Bool(0.3) {
			alter, restore = "ALTER TABLE a ADD (c0, c1) DEFAULT 7 BEFORE g;", "ALTER TABLE a DROP (c0, c1);"
		}
		switch r.Intn(3) {
		case 0:
			q := fmt.Sprintf("SELECT %s AS x FROM a ORDER BY id", e9)
			return fmt.Sprintf("%s; %s %s; %s", q, alter, q, restore),
				fmt.Sprintf("PREPARE px FROM '%s'; EXECUTE px; %s EXECUTE px; %s DISPOSE PREPARE px;", q, alter, restore), 1, 0
		case 1:
			q := fmt.Sprintf("(SELECT %s FROM a WHERE id = 1)", e9)
			return fmt.Sprintf("PRINT %s; %s PRINT %s; %s", q, alter, q, restore),
				fmt.Sprintf("DECLARE fq FUNCTION () AS BEGIN RETURN %s; END; PRINT fq(); %s PRINT fq(); %s DISPOSE FUNCTION fq;", q, alter, restore), 1, 0
		default:
			q := fmt.Sprintf("SELECT %s AS x FROM w ORDER BY id", e9)
			v1, v2 := "DECLARE w VIEW AS SELECT id, g, v, s FROM a;", "DISPOSE VIEW w; DECLARE w VIEW AS SELECT s, v, g, id FROM a;"
			return fmt.Sprintf("%s %s; %s %s; DISPOSE VIEW w;", v1, q, v2, q),
				fmt.Sprintf("%s PREPARE px FROM '%s'; EXECUTE px; %s EXECUTE px; DISPOSE VIEW w; DISPOSE PREPARE px;", v1, q, v2), 1, 0
		}
	case 10, 11:
		// two expressions evaluated inside ONE expression against each of them on its own: evaluating
		// the first must not change what the second one reads (rows of the group, of the record)
		aggs := []string{"LISTAGG(s, ',') WITHIN GROUP (ORDER BY s DESC)", "LISTAGG(s, ',') WITHIN GROUP (ORDER BY v, id)", "JSON_AGG(s) WITHIN GROUP (ORDER BY id DESC)", "LISTAGG(s, ',')", "JSON_AGG(v)", "JSON_AGG(s)",
			"LISTAGG(DISTINCT s, '|')", "STRING(COUNT(*))", "MIN(s)", "MAX(s)", "LISTAGG(STRING(id), '')", "STRING(usum(v))", "LISTAGG(s, ';') WITHIN GROUP (ORDER BY id % 3, s)", "STRING(COUNT(DISTINCT s))"}
		rows := []string{"UPPER(s)", "JSON_OBJECT(s)", "JSON_OBJECT(v, s)", "STRING(id)", "s || STRING(g)", "LPAD(STRING(g), 3, '0')", "(SELECT MAX(y.s) FROM a y WHERE y.g = a.g)", "STRING(f(g, id))", "REPLACE(s, 'a', 'b')", "TRIM(s)", "STRING(v)"}
		nz := func(e string) string { return "COALESCE(" + e + ", 'NULL')" }
		if r.Bool(0.6) {
			a1, a2 := aggs[r.Intn(len(aggs))], aggs[r.Intn(len(aggs))]
			return fmt.Sprintf("SELECT g, %s AS x, %s AS y FROM a GROUP BY g;", nz(a1), nz(a2)),
				fmt.Sprintf("SELECT g, %s || '~' || %s AS xy FROM a GROUP BY g;", nz(a1), nz(a2)), -1, 0
		}
		e1, e2 := rows[r.Intn(len(rows))], rows[r.Intn(len(rows))]
		return fmt.Sprintf("SELECT id, %s AS x, %s AS y FROM a ORDER BY id;", nz(e1), nz(e2)),
			fmt.Sprintf("SELECT id, %s || '~' || %s AS xy FROM a ORDER BY id;", nz(e1), nz(e2)), -1, 0
	case 0, 1, 2, 3:
		ord := r.PickS("", "", " ORDER BY id", " ORDER BY g, id")
		return fmt.Sprintf("SELECT id, g, v, s, id AS i2, s AS s2 FROM a%s%s;", cond, ord),
			fmt.Sprintf("SELECT id, g, v, s, %s, id AS i2, s AS s2 FROM a%s%s;", exprs(r.Pick(1, 1, 2, 3), "e"), cond, ord), 4, 2
	case 4, 5:
		e := sibExpr(r)
		return "SELECT id, g, v, s FROM a;", fmt.Sprintf("SELECT id, g, v, s FROM a WHERE (%s) IS NULL OR (%s) IS NOT NULL;", e, e), 4, 0
	case 6:
		e := sibExpr(r)
		return "SELECT * FROM a ORDER BY id;", fmt.Sprintf("SELECT * FROM a ORDER BY (%s) IS NULL AND FALSE, id;", e), 4, 0
	case 7, 8:
		col := func() string { return r.PickS("id", "g", "v", "s", "v * 1.5", "s || 'x'", "UPPER(s)") }
		agg := func(i int) string {
			return fmt.Sprintf("%s(%s%s) AS a%d", aggNames[r.Intn(len(aggNames))], r.PickS("", "", "DISTINCT "), col(), i)
		}
		return "SELECT g, COUNT(*) AS c, MIN(id) AS m, MAX(s) AS x, SUM(v) AS t FROM a GROUP BY g;",
			fmt.Sprintf("SELECT g, COUNT(*) AS c, MIN(id) AS m, %s, %s, MAX(s) AS x, SUM(v) AS t FROM a GROUP BY g;", agg(0), agg(1)), 3, 2
	default:
		an := fmt.Sprintf("%s(%s) OVER (PARTITION BY %s ORDER BY id) AS w", r.PickS(anaNames[r.Intn(len(anaNames))], aggNames[r.Intn(len(aggNames))]), r.PickS("v", "s", "id", "v, 1", "s, 1, s", "v, 2", ""), r.PickS("g", "id % 3", "s"))
		return "SELECT id, g, v, s FROM a ORDER BY id;", fmt.Sprintf("SELECT id, g, v, %s, s FROM a ORDER BY id;", an), 3, 1
	}
}

const typedViewDecl = "VAR @b := TRUE; DECLARE tt VIEW (i, f, d, s, b, u); INSERT INTO tt VALUES (1, 1.5, DATETIME('2012-02-03 09:18:15'), 'one', TRUE, NULL), (2, -2.25, DATETIME('2013-04-05 10:00:00'), ' Two ', FALSE, NULL), (3, 0.5, DATETIME('2014-06-07 11:00:00'), '3', TRUE, NULL);"

// first argument: one value of every class, held by a variable (the aliasing
// that matters: the function receives the variable's own object)
var fnArgVars = []string{"@x", "@n", "@f", "@d", "@u", "@b", "@d", "@x"}

// following arguments: plausible parameters (time zone, count, format, pattern)
var fnArgParams = []string{"'UTC'", "2", "'%Y-%m-%d'", "'a'", "1", "@n", "@x", "@d", "0", "'Local'"}
var fnArgCols = []string{"i", "f", "d", "s", "b", "u", "i", "d", "s"}

var builtinNames, aggNames, anaNames []string

// ensureFnNames fills the lists of built-in, aggregate and analytic function
// names from csvq's own tables (sorted: map order must not leak into scenarios).
func ensureFnNames() {
	if builtinNames == nil {
		for n := range query.Functions {
			switch n {
			case "NOW", "RAND", "RANDOM", "CALL", "UUID", "RAND_INT", "SYSTEM":
				continue // not functions of their arguments
			}
			builtinNames = append(builtinNames, n)
		}
		sort.Strings(builtinNames)
	}
	if aggNames == nil {
		for n := range query.AggregateFunctions {
			aggNames = append(aggNames, n)
		}
		for n := range query.AnalyticFunctions {
			anaNames = append(anaNames, n)
		}
		sort.Strings(aggNames)
		sort.Strings(anaNames)
	}
}

func genFnProbe(r *Rng) c14Stmt {
	ensureFnNames()
	if builtinNames == nil {
		for n := range query.Functions {
			switch n {
			case "NOW", "RAND", "RANDOM", "CALL", "UUID", "RAND_INT", "SYSTEM":
				continue // not functions of their arguments
			}
			builtinNames = append(builtinNames, n)
		}
		sort.Strings(builtinNames)
	}
	if r.Bool(0.3) {
		// aggregate and analytic functions over typed cells and variables
		if aggNames == nil {
			for n := range query.AggregateFunctions {
				aggNames = append(aggNames, n)
			}
			for n := range query.AnalyticFunctions {
				anaNames = append(anaNames, n)
			}
			sort.Strings(aggNames)
			sort.Strings(anaNames)
		}
		arg := fnArgCols[r.Intn(len(fnArgCols))]
		if r.Bool(0.3) {
			arg = fnArgVars[r.Intn(len(fnArgVars))]
		}
		switch r.Intn(4) {
		case 0:
			return c14Stmt{Src: fmt.Sprintf("SELECT %s(%s) FROM tt;", aggNames[r.Intn(len(aggNames))], arg), Repeat: 2, Reads: true}
		case 1:
			return c14Stmt{Src: fmt.Sprintf("SELECT b, %s(%s), %s(DISTINCT %s) FROM tt GROUP BY b;", aggNames[r.Intn(len(aggNames))], arg, aggNames[r.Intn(len(aggNames))], arg), Repeat: 2, Reads: true}
		case 2:
			return c14Stmt{Src: fmt.Sprintf("SELECT i, %s(%s) OVER (PARTITION BY b ORDER BY i) FROM tt;", aggNames[r.Intn(len(aggNames))], arg), Repeat: 2, Reads: true}
		default:
			return c14Stmt{Src: fmt.Sprintf("SELECT i, %s(%s) OVER (ORDER BY i) FROM tt;", anaNames[r.Intn(len(anaNames))], arg), Repeat: 2, Reads: true}
		}
	}
	fn := builtinNames[r.Intn(len(builtinNames))]
	nargs := r.Pick(1, 1, 2, 2, 2, 3)
	var a []string
	from := "PRINT %s(%s);"
	if r.Bool(0.5) {
		a = append(a, fnArgVars[r.Intn(len(fnArgVars))])
	} else {
		a = append(a, fnArgCols[r.Intn(len(fnArgCols))])
		from = "SELECT %s(%s) FROM tt;"
	}
	for i := 1; i < nargs; i++ {
		a = append(a, fnArgParams[r.Intn(len(fnArgParams))])
	}
	return c14Stmt{Src: fmt.Sprintf(from, fn, strings.Join(a, ", ")), Repeat: 2, Reads: true}
}

// dumps of the temporary tables: no generated statement changes tv or tt, so
// every dump of one run must print the same
const tvDumpSrc = "SELECT * FROM tv;"
const ttDumpSrc = "SELECT * FROM tt; PRINT @b;"

var reFromAX = regexp.MustCompile(`\bFROM a x\b`)
var reFromA = regexp.MustCompile(`\bFROM a\b`)

// onTempView lets a reading statement read the temporary view tv (a copy of
// a) instead of the file table a.
func onTempView(src string) string {
	src = reFromAX.ReplaceAllString(src, "FROM tv x")
	return reFromA.ReplaceAllString(src, "FROM tv a")
}

// c14MultiWorker is set for the evaluation in progress: with several workers
// the row whose error is reported is the one whose worker fails first, and
// different rows may fail with differently shaped messages (a JSON query that
// does not parse vs. a JSON text that does not parse), so only the fact of the
// failure is compared; with one worker the class of the message is compared too.
var c14MultiWorker bool

func c14ErrClass(s string) string {
	if c14MultiWorker {
		return "(some row failed)"
	}
	return errClass(s)
}

type c14 struct{}

func init() { Register(c14{}) }

func (c14) Prop() string { return "C14" }

func renderC14(sc *Scenario, m *c14Meta) {
	p := &sc.Procs[0]
	p.Shell = true
	p.Statements = []string{c14Prelude}
	p.Repeats = []int{1}
	for _, s := range m.Stmts {
		p.Statements = append(p.Statements, s.Src)
		p.Repeats = append(p.Repeats, s.Repeat)
	}
	if sc.Meta == nil {
		sc.Meta = map[string]string{}
	}
	sc.Meta["workload"] = mustJSON(m)
}

func (c14) Gen(seed uint64, tier string) *Scenario {
	r := Sub(seed, "c14")
	m := &c14Meta{Kind: r.PickS("mixed", "mixed", "prefix", "fnprobe", "fnprobe", "equiv", "sibling")}
	big := r.Bool(0.12)
	if big {
		m.NA, m.NB = r.Range(150, 400), r.Range(0, 20)
	} else {
		m.NA, m.NB = r.Range(1, 24), r.Range(0, 10)
	}
	sc := &Scenario{Prop: "C14"}
	sc.Files = []FileSpec{{Name: "a.csv", Content: genTableA(m.NA, 4, r)}, {Name: "b.csv", Content: genTableB(m.NB, m.NA, 4, r)}}
	n := r.Range(3, 7)
	if m.Kind == "equiv" {
		a, b := genEquivPair(r)
		for _, x := range a {
			m.Stmts = append(m.Stmts, c14Stmt{Src: x, Repeat: 1})
		}
		for _, x := range b {
			m.Alt = append(m.Alt, c14Stmt{Src: x, Repeat: 1})
		}
		m.Alt = append(m.Alt, c14Stmt{Src: "SELECT * FROM a; PRINT @x; PRINT @n; PRINT @f; PRINT @d; PRINT @u;", Repeat: 1, Reads: true}, c14Stmt{Src: "COMMIT;", Repeat: 1})
		n = 0
	}
	if m.Kind == "sibling" {
		base, ext, head, tail := genSiblingPair(r)
		m.Stmts = append(m.Stmts, c14Stmt{Src: base, Repeat: 1, Reads: true})
		m.Alt = append(m.Alt, c14Stmt{Src: ext, Repeat: 1, Reads: true}, c14Stmt{Src: "COMMIT;", Repeat: 1})
		m.SibHead, m.SibTail = head, tail
		n = 0
	}
	if m.Kind == "fnprobe" {
		// every built-in function with arguments of every value class: variables,
		// literals and typed cells of a temporary table are only read, so they must
		// print the same afterwards
		m.Stmts = append(m.Stmts, c14Stmt{Src: typedViewDecl, Repeat: 1}, c14Stmt{Src: ttDumpSrc, Repeat: 1, Reads: true})
		for i, np := 0, r.Range(10, 30); i < np; i++ {
			m.Stmts = append(m.Stmts, genFnProbe(r))
		}
		m.Stmts = append(m.Stmts, c14Stmt{Src: "VAR @z1 := DATETIME('2030-01-01 00:00:00'); VAR @z2 := 'zzz' || 'y'; VAR @z3 := 12345 + 1; VAR @z4 := 1.25 * 2; ", Repeat: 1, Reads: true}, c14Stmt{Src: ttDumpSrc, Repeat: 1, Reads: true})
		n = 0
	}
	useTv := n > 0 && r.Bool(0.5)
	if useTv {
		m.Stmts = append(m.Stmts, c14Stmt{Src: tvDumpSrc, Repeat: 1, Reads: true})
	}
	for i := 0; i < n; i++ {
		st := genC14Stmt(r, m.Kind == "prefix")
		if useTv && st.Reads && r.Bool(0.6) {
			st.Src = onTempView(st.Src)
		}
		m.Stmts = append(m.Stmts, st)
	}
	if m.Kind == "prefix" {
		// the statement whose behaviour must not depend on the reading prefix
		x := genC14Stmt(r, false)
		for x.Reads {
			x = genC14Stmt(r, false)
		}
		m.Stmts = append(m.Stmts, x)
	}
	m.Stmts = append(m.Stmts, c14Stmt{Src: "SELECT * FROM a; PRINT @x; PRINT @n; PRINT @f; PRINT @d; PRINT @u;", Repeat: 1, Reads: true})
	if useTv {
		m.Stmts = append(m.Stmts, c14Stmt{Src: tvDumpSrc, Repeat: 1, Reads: true})
	}
	m.Stmts = append(m.Stmts, c14Stmt{Src: "COMMIT;", Repeat: 1})
	cpu := 1
	if r.Bool(0.5) {
		cpu = r.Pick(2, 3, 4, 8)
	}
	sc.Procs = []ProcSpec{{CPU: cpu, WaitTimeoutS: 10.0000001, RetryDelayNs: 10001009, Quiet: true, Format: "CSV", Flags: swarmFlags(Sub(seed, "c14-flags"), 0.25, true)}}
	if rs := Sub(seed, "c14-strict"); rs.Bool(0.2) {
		// (comparison keys are serialised under strict equality: another code path of every sort, group and
		// DISTINCT; all runs that are compared with each other use the same flags)
		sc.Procs[0].Flags = mergeFlags(sc.Procs[0].Flags, map[string]string{"STRICT_EQUAL": "true"})
	}
	if rs := Sub(seed, "c14-strict-order"); m.Kind == "sibling" && strings.Contains(m.Stmts[0].Src, "ORDER BY s DESC") && rs.Bool(0.6) {
		// (the plain query against the same query with a window ordered by the string column: under strict
		// equality 'DOG' / 'dog' / 'dog ' are different sort keys whose normalised forms are equal - defect F24)
		sc.Procs[0].Flags = mergeFlags(sc.Procs[0].Flags, map[string]string{"STRICT_EQUAL": "true"})
	}
	renderC14(sc, m)
	if big {
		sc.Knobs = Knobs{RowStride: 64, MinPerCore: r.Pick(0, 20)}
	} else {
		sc.Knobs = Knobs{RowStride: r.Pick(1, 2, 4), MinPerCore: r.Pick(1, 2, 5)}
	}
	sc.Knobs.PoolSeed = hashLabel(seed, "pool")
	sc.Sched = GenSched(seed, 1, 400)
	if sc.Sched.Strategy == "delay" {
		sc.Sched.Strategy = "sticky"
		sc.Sched.Sticky = 0.5
	}
	sc.MaxSteps = 3000000
	return sc
}

func (c14) Shrinks(c *Case) []*Case {
	var meta c14Meta
	mustUnJSON(c.Scenario.Meta["workload"], &meta)
	var out []*Case
	for i := len(meta.Stmts) - 1; i >= 0; i-- {
		if len(meta.Stmts) < 2 {
			break
		}
		if (meta.Kind == "sibling" || meta.Kind == "equiv") && i == 0 {
			continue // the statement the comparison is about
		}
		cand := cloneCase(c)
		var m c14Meta
		mustUnJSON(cand.Scenario.Meta["workload"], &m)
		m.Stmts = append(m.Stmts[:i:i], m.Stmts[i+1:]...)
		renderC14(cand.Scenario, &m)
		out = append(out, cand)
	}
	for fi := range c.Scenario.Files {
		lines := strings.Split(strings.TrimRight(c.Scenario.Files[fi].Content, "\n"), "\n")
		if len(lines) > 3 {
			cand := cloneCase(c)
			cand.Scenario.Files[fi].Content = strings.Join(lines[:1+(len(lines)-1)/2], "\n") + "\n"
			out = append(out, cand)
		}
	}
	if c.Scenario.Procs[0].CPU > 1 {
		cand := cloneCase(c)
		cand.Scenario.Procs[0].CPU = 1
		out = append(out, cand)
	}
	return out
}

// shellSections splits the output of shellLoop by statement and repetition.
func shellSections(out string) (map[string]string, []string, bool) {
	secs := map[string]string{}
	var astChanged []string
	cur := ""
	finished := false
	lines := strings.Split(out, "\n")
	for i := 0; i < len(lines); i++ {
		l := lines[i]
		switch {
		case strings.HasPrefix(l, "@S "):
			cur = strings.TrimPrefix(l, "@S ")
		case strings.HasPrefix(l, "@ASTCHANGED "):
			astChanged = append(astChanged, l+" "+strings.Join(lines[i+1:min(i+3, len(lines))], " "))
			i += 2
			cur = ""
		case strings.HasPrefix(l, "@PARSEERR "):
			secs["parse-error"] += l + "\n"
			cur = ""
		case strings.HasPrefix(l, "@Z "):
			finished = true
			cur = ""
		case strings.HasPrefix(l, "@ERR "):
			// which row's error is reported first depends on the worker schedule: keep
			// the class of the error, not the row-specific details
			f := strings.SplitN(l, " ", 3)
			secs[f[1]] += "ERROR " + c14ErrClass(f[2]) + "\n"
		default:
			if cur != "" {
				secs[cur] += l + "\n"
			}
		}
	}
	return secs, astChanged, finished
}

func (c14) Eval(t *testing.T, c *Case, dec func(int) *Decider) *Outcome {
	sc := c.Scenario
	var meta c14Meta
	mustUnJSON(sc.Meta["workload"], &meta)
	o := &Outcome{}
	const prop = "C14"
	c14MultiWorker = sc.Procs[0].CPU > 1
	policies := []string{"fresh", "lifo", "fifo", "random", "poison"}
	results := map[string]string{}
	var freshSecs map[string]string
	for i, pol := range policies {
		psc := *sc
		psc.Knobs.Pool = pol
		res, _ := Execute(t, &psc, dec(i))
		o.Runs++
		o.addStats(res.Stats)
		o.LogHash += res.LogHash
		o.TraceHash += res.TraceHash
		if pol == "lifo" {
			o.Trace = tail(res.Log, 200)
			if res.PoolReissued > 0 {
				o.NonTrivial = true
			}
			o.Stats.Probes = addProbe(o.Stats.Probes, "pool-objects-reissued", res.PoolReissued)
			o.Stats.Probes = addProbe(o.Stats.Probes, "join-record-pool-reissued", res.DynReissued)
		}
		if res.LimitHit && res.Hang == "" && res.BubbleErr == "" && res.Procs[0].Panic == "" {
			// the step budget of the simulator ran out while the program was making progress: the
			// outputs of this scenario are incomplete and nothing is compared (see c12.go)
			o.Stats.probe("step-limit-inconclusive")
			return o
		}
		if res.Hang != "" || res.BubbleErr != "" || res.Procs[0].Panic != "" {
			o.viol(prop, "termination", "hang-or-panic:"+pol, fmt.Sprintf("run with pool policy %s did not end normally: %s %s %s", pol, res.Hang, res.BubbleErr, res.Procs[0].Panic))
			continue
		}
		p := res.Procs[0]
		results[pol] = normErrLines(resultOf(res))
		secs, astChanged, finished := shellSections(p.Stdout)
		if pol == "fresh" {
			freshSecs = secs
		}
		if !finished && p.ExitCode == 0 {
			o.viol(prop, "termination", "truncated", "process ended without finishing its statements")
		}
		if meta.Kind == "fnprobe" && strings.HasPrefix(secs["1.0"], "ERROR") {
			o.Infra = append(o.Infra, "the typed table of the function probes could not be declared: "+firstLine(secs["1.0"]))
		}
		if pol == "poison" {
			continue // not a legal allocator: only compared below, as a latent indicator
		}
		// (2) syntax tree unchanged by execution
		for _, a := range astChanged {
			o.viol(prop, "syntax-tree", "ast-mutated", fmt.Sprintf("[pool %s] executing a statement changed its syntax tree: %s", pol, a))
		}
		// (6) temporary tables that are only read print the same in every dump
		for _, dsrc := range []string{tvDumpSrc, ttDumpSrc} {
			first, have := "", false
			for si, st := range meta.Stmts {
				if st.Src != dsrc {
					continue
				}
				d, ok := secs[fmt.Sprintf("%d.0", si+1)]
				if !ok {
					continue
				}
				if !have {
					first, have = d, true
				} else if d != first {
					o.viol(prop, "stored-tables", "temporary-table-changed-by-reads", fmt.Sprintf("[pool %s] a temporary table that the statements in between only read prints differently afterwards: %s", pol, firstDiff(first, d)))
				} else {
					o.Stats.probe("temporary-table-dump-equal")
				}
			}
		}
		// (3) first and second execution agree
		for si, st := range meta.Stmts {
			if st.Repeat < 2 || !st.Reads {
				continue
			}
			a, aok := secs[fmt.Sprintf("%d.0", si+1)]
			b, bok := secs[fmt.Sprintf("%d.1", si+1)]
			if aok && bok {
				if a != b {
					o.viol(prop, "re-execution", "re-execution-differs:"+stmtKind(st.Src),
						fmt.Sprintf("[pool %s] executing the same reading statement twice gives different output: %s\n  statement: %s", pol, firstDiff(a, b), st.Src))
				} else {
					o.Stats.probe("re-execution-equal")
				}
			}
		}
	}
	// (1) legal allocator policies agree
	if ref, ok := results["fresh"]; ok {
		for _, pol := range []string{"lifo", "fifo", "random"} {
			if got, ok := results[pol]; ok && got != ref {
				o.viol(prop, "pool-independence", "pool-policy-dependent:"+diffSig(sc, ref, got),
					fmt.Sprintf("output differs between an allocator that never recycles and the %s recycling policy (both legal for sync.Pool): %s", pol, firstDiff(ref, got)))
			}
		}
		if got, ok := results["poison"]; ok {
			if got != ref {
				o.Stats.probe("latent:poison-differs")
			} else {
				o.Stats.probe("poison-equal")
			}
		}
	}
	// (4) a reading prefix does not influence the statement after it
	xi := -1
	for i, st := range meta.Stmts {
		if !st.Reads && st.Src != "COMMIT;" {
			xi = i // the last statement that changes something
		}
	}
	if meta.Kind == "prefix" && xi >= 1 {
		alone := *sc
		alone.Procs = append([]ProcSpec{}, sc.Procs...)
		am := meta
		am.Stmts = append([]c14Stmt{}, meta.Stmts[xi:]...)
		renderC14Into(&alone, &am)
		alone.Knobs.Pool = "fresh"
		resA, _ := Execute(t, &alone, dec(len(policies)))
		o.Runs++
		full := *sc
		full.Knobs.Pool = "fresh"
		resF, _ := Execute(t, &full, dec(len(policies)+1))
		o.Runs++
		if resA.LimitHit || resF.LimitHit {
			o.Stats.probe("step-limit-inconclusive")
			return o
		}
		sa, _, _ := shellSections(resA.Procs[0].Stdout)
		sf, _, _ := shellSections(resF.Procs[0].Stdout)
		for k := 0; k < len(meta.Stmts)-xi; k++ {
			a := sa[fmt.Sprintf("%d.0", 1+k)]
			f := sf[fmt.Sprintf("%d.0", 1+xi+k)]
			if a != f {
				o.viol(prop, "read-only-prefix", "prefix-changes-later-statement:"+stmtKind(meta.Stmts[xi].Src),
					fmt.Sprintf("statement %q behaves differently after %d statements that only read: %s", meta.Stmts[xi+k].Src, xi, firstDiff(a, f)))
				break
			}
		}
		if fa, ff := resA.Final["a.csv"].Data, resF.Final["a.csv"].Data; fa != ff {
			o.viol(prop, "read-only-prefix", "prefix-changes-committed-file", "the committed table differs when reading statements precede the change: "+firstDiff(fa, ff))
		}
		o.Stats.probe("prefix-scenario")
	}
	// (5) re-executing one syntax tree with changing values == spelling the executions out
	if meta.Kind == "equiv" && len(meta.Alt) > 0 {
		alt := *sc
		alt.Procs = append([]ProcSpec{}, sc.Procs...)
		am := meta
		am.Stmts = meta.Alt
		renderC14Into(&alt, &am)
		alt.Knobs.Pool = "fresh"
		resB, _ := Execute(t, &alt, dec(len(policies)+2))
		o.Runs++
		full := *sc
		full.Knobs.Pool = "fresh"
		resA, _ := Execute(t, &full, dec(len(policies)+3))
		o.Runs++
		if resA.LimitHit || resB.LimitHit {
			o.Stats.probe("step-limit-inconclusive")
			return o
		}
		sa, _, _ := shellSections(resA.Procs[0].Stdout)
		sb, _, _ := shellSections(resB.Procs[0].Stdout)
		da := sa[fmt.Sprintf("%d.0", len(meta.Stmts)-1)]
		db := sb[fmt.Sprintf("%d.0", len(meta.Alt)-1)]
		if da != db {
			o.viol(prop, "re-execution", "re-executed-tree-differs-from-spelled-out:"+stmtKind(meta.Stmts[0].Src),
				fmt.Sprintf("a statement executed repeatedly with changing variable / placeholder values leaves a different table than the same executions written out with literals: %s\n  repeated: %s\n  written out: %s", firstDiff(db, da), meta.Stmts[0].Src, meta.Alt[0].Src))
		} else if fa, fb := resA.Final["a.csv"].Data, resB.Final["a.csv"].Data; fa != fb {
			o.viol(prop, "re-execution", "re-executed-tree-commits-differently", "committed table differs: "+firstDiff(fb, fa))
		} else {
			o.Stats.probe("equiv-scenario-equal")
		}
	}
	// (7) further expressions in a reading statement do not change what its other columns print
	if meta.Kind == "sibling" && len(meta.Alt) > 0 && freshSecs != nil {
		alt := *sc
		alt.Procs = append([]ProcSpec{}, sc.Procs...)
		am := meta
		am.Stmts = meta.Alt
		renderC14Into(&alt, &am)
		alt.Knobs.Pool = "lifo"
		resB, _ := Execute(t, &alt, dec(len(policies)+4))
		o.Runs++
		if resB.LimitHit && resB.Hang == "" && resB.Procs[0].Panic == "" {
			o.Stats.probe("step-limit-inconclusive")
			return o
		}
		sb, _, _ := shellSections(resB.Procs[0].Stdout)
		base, ext := freshSecs["1.0"], sb["1.0"]
		switch {
		case resB.Hang != "" || resB.Procs[0].Panic != "":
			o.viol(prop, "termination", "hang-or-panic:sibling", fmt.Sprintf("the extended statement did not end normally: %s %s", resB.Hang, resB.Procs[0].Panic))
		case strings.HasPrefix(base, "ERROR") || base == "":
			o.Stats.probe("sibling-base-failed")
		case strings.HasPrefix(ext, "ERROR") || ext == "":
			o.Stats.probe("sibling-extension-failed")
		default:
			var pa, pb string
			var ea, eb error
			if meta.SibHead < 0 {
				pa, ea = concatCSV(base)
				pb, eb = projectCSV(ext, 2, 0)
			} else {
				pa, ea = projectCSV(base, meta.SibHead, meta.SibTail)
				pb, eb = projectCSV(ext, meta.SibHead, meta.SibTail)
			}
			if ea != nil || eb != nil {
				o.Stats.probe("sibling-unparsable")
			} else if pa != pb {
				o.viol(prop, "read-only-expression", "sibling-columns-changed:"+stmtKind(meta.Alt[0].Src),
					fmt.Sprintf("adding expressions that only read the row changes what the other columns of the same statement print: %s\n  statement: %s\n  extended:  %s", firstDiff(pa, pb), meta.Stmts[0].Src, meta.Alt[0].Src))
			} else {
				o.Stats.probe("sibling-columns-equal")
			}
		}
	}
	o.Sample = map[string]interface{}{"seed": c.Seed, "kind": meta.Kind, "statements": sc.Procs[0].Statements, "repeats": sc.Procs[0].Repeats, "cpu": sc.Procs[0].CPU, "knobs": sc.Knobs}
	return o
}

func renderC14Into(sc *Scenario, m *c14Meta) {
	meta := sc.Meta
	sc.Meta = map[string]string{}
	renderC14(sc, m)
	sc.Meta = meta
}

func stmtKind(src string) string {
	f := strings.Fields(src)
	if len(f) == 0 {
		return "?"
	}
	k := strings.ToUpper(f[0])
	for _, w := range []string{"OVER", "GROUP BY", "JOIN", "CURSOR", "PREPARE", "WHILE", "UNION", "(SELECT"} {
		if strings.Contains(strings.ToUpper(src), w) {
			k += "+" + w
			break
		}
	}
	return k
}

// normErrLines reduces "@ERR i.r message" lines to the class of the message.
func normErrLines(s string) string {
	lines := strings.Split(s, "\n")
	for i, l := range lines {
		if strings.HasPrefix(l, "@ERR ") {
			f := strings.SplitN(l, " ", 3)
			if len(f) == 3 {
				lines[i] = f[0] + " " + f[1] + " " + c14ErrClass(f[2])
			}
		}
	}
	return strings.Join(lines, "\n")
}

// projectCSV keeps the first head and the last tail columns of a CSV result set.
func projectCSV(out string, head, tail int) (string, error) {
	rd := csv.NewReader(strings.NewReader(out))
	rd.FieldsPerRecord = -1
	rd.LazyQuotes = true
	recs, err := rd.ReadAll()
	if err != nil {
		return "", err
	}
	var b strings.Builder
	for _, rec := range recs {
		if len(rec) < head+tail {
			return "", fmt.Errorf("short record")
		}
		b.WriteString(strings.Join(rec[:head], "\x1f"))
		b.WriteString("\x1e")
		b.WriteString(strings.Join(rec[len(rec)-tail:], "\x1f"))
		b.WriteString("\n")
	}
	return b.String(), nil
}

// concatCSV turns the rows (k, x, y) of a CSV result set into (k, x~y), in the
// form projectCSV gives for two leading columns.
func concatCSV(out string) (string, error) {
	rd := csv.NewReader(strings.NewReader(out))
	rd.FieldsPerRecord = -1
	rd.LazyQuotes = true
	recs, err := rd.ReadAll()
	if err != nil {
		return "", err
	}
	var b strings.Builder
	for i, rec := range recs {
		if len(rec) < 3 {
			return "", fmt.Errorf("short record")
		}
		v := rec[1] + "~" + rec[2]
		if i == 0 {
			v = "xy" // header
		}
		b.WriteString(rec[0] + "\x1f" + v)
		b.WriteString("\x1e")
		b.WriteString("\n")
	}
	return b.String(), nil
}
