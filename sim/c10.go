package sim

import (
	"encoding/json"
	"fmt"
	"os"
	"os/exec"
	"path/filepath"
	"strings"
	"syscall"
	"testing"
	"time"
)

// C10: a crash at any instant of COMMIT leaves each existing table complete:
// old or new. Crash points inside a scenario are enumerated: the controller
// copies the directory (a crash image) at every scheduling point of the
// committing process between the first step of Transaction.Commit and
// tx.commit.done, including the middle of every temp-file write.

type c10Table struct {
	Name   string `json:"name"`
	Format string `json:"format"`
	Rows   int    `json:"rows"`
}

type c10Meta struct {
	Tables    []c10Table `json:"tables"`
	Stmts     []string   `json:"stmts"`
	StaleTemp string     `json:"stale_temp,omitempty"` // a temp control file a killed process left next to a table (and no lock file)
}

var words = []string{"alpha", "beta", "gamma", "delta", "eps", "zeta", "eta", "theta", "iota", "kappa", "la mb", "mu,nu", "x\"y", "omega"}

func genTableContent(format string, rows int, r *Rng) string {
	var b strings.Builder
	word := func(i int) string {
		w := words[(i*7+3)%len(words)]
		if format != "csv" {
			w = strings.NewReplacer(",", "_", "\"", "_", " ", "_").Replace(w)
		}
		return w
	}
	switch format {
	case "csv":
		b.WriteString("id,n,s\n")
		for i := 1; i <= rows; i++ {
			w := word(i)
			if strings.ContainsAny(w, ",\" ") {
				w = "\"" + strings.ReplaceAll(w, "\"", "\"\"") + "\""
			}
			fmt.Fprintf(&b, "%d,%d,%s\n", i, i%5, w)
		}
	case "tsv":
		b.WriteString("id\tn\ts\n")
		for i := 1; i <= rows; i++ {
			fmt.Fprintf(&b, "%d\t%d\t%s\n", i, i%5, word(i))
		}
	case "ltsv":
		for i := 1; i <= rows; i++ {
			fmt.Fprintf(&b, "id:%d\tn:%d\ts:%s\n", i, i%5, word(i))
		}
		if rows == 0 {
			b.WriteString("id:0\tn:0\ts:zero\n")
		}
	case "jsonl":
		for i := 1; i <= rows; i++ {
			fmt.Fprintf(&b, "{\"id\":%d,\"n\":%d,\"s\":\"%s\"}\n", i, i%5, word(i))
		}
		if rows == 0 {
			b.WriteString("{\"id\":0,\"n\":0,\"s\":\"zero\"}\n")
		}
	case "fixed":
		b.WriteString("id   n    s         \n")
		for i := 1; i <= rows; i++ {
			fmt.Fprintf(&b, "%-5d%-5d%-10s\n", i, i%5, word(i))
		}
	case "json":
		b.WriteString("[")
		for i := 1; i <= rows; i++ {
			if i > 1 {
				b.WriteString(",")
			}
			fmt.Fprintf(&b, "{\"id\":%d,\"n\":%d,\"s\":\"%s\"}", i, i%5, word(i))
		}
		if rows == 0 {
			b.WriteString("{\"id\":0,\"n\":0,\"s\":\"zero\"}")
		}
		b.WriteString("]\n")
	}
	return b.String()
}

type c10 struct{}

func init() { Register(c10{}) }

func (c10) Prop() string { return "C10" }

func (c10) Gen(seed uint64, tier string) *Scenario {
	r := Sub(seed, "workload")
	m := &c10Meta{}
	sc := &Scenario{Prop: "C10"}
	formats := []string{"csv", "csv", "tsv", "json", "jsonl", "ltsv"}
	ntab := r.Range(1, 3)
	for i := 0; i < ntab; i++ {
		f := formats[r.Intn(len(formats))]
		rows := r.Range(0, 24)
		if tier == "thorough" && r.Bool(0.15) || r.Bool(0.04) {
			rows = r.Range(150, 700)
		}
		ext := f
		if f == "fixed" {
			ext = "txt"
		}
		t := c10Table{Name: fmt.Sprintf("t%d.%s", i, ext), Format: f, Rows: rows}
		if r.Bool(0.1) {
			// addressed by a relative path into a sub-directory
			t.Name = "sub/" + t.Name
		}
		m.Tables = append(m.Tables, t)
		if r.Bool(0.12) {
			// the table path is a symbolic link to the data file
			sc.Files = append(sc.Files, FileSpec{Name: "store/" + t.Name, Content: genTableContent(f, rows, r)}, FileSpec{Name: t.Name, LinkTo: "store/" + t.Name})
		} else {
			sc.Files = append(sc.Files, FileSpec{Name: t.Name, Content: genTableContent(f, rows, r)})
			if rh := Sub(seed, fmt.Sprintf("c10-hardlink-%d", i)); rh.Bool(0.12) {
				// the table has a second name (a hard link, e.g. a backup made with ln or cp -l): whatever
				// COMMIT does about that, each name holds a complete old or new version at every instant
				sc.Files = append(sc.Files, FileSpec{Name: strings.ReplaceAll(t.Name, "/", "_") + ".bak", HardTo: t.Name})
			}
		}
	}
	if rs := Sub(seed, "c10-stale-temp"); rs.Bool(0.06) {
		// a killed process left its temp file next to the first table and somebody removed the lock file only:
		// csvq gives up after its wait timeout (and touches nothing), or - whatever it does instead - goes
		// through a commit that keeps the table complete at every instant
		n := m.Tables[0].Name
		m.StaleTemp = filepath.Join(filepath.Dir(n), "."+filepath.Base(n)+".temp")
		sc.Files = append(sc.Files, FileSpec{Name: m.StaleTemp, Content: "left behind\n"})
	}
	// an untouched bystander
	sc.Files = append(sc.Files, FileSpec{Name: "bystander.csv", Content: "a,b\n1,2\n"})
	ncommit := r.Pick(1, 1, 2)
	for cidx := 0; cidx < ncommit; cidx++ {
		touched := 0
		if r.Bool(0.1) {
			// a transaction that is rolled back before the one that commits
			m.Stmts = append(m.Stmts, fmt.Sprintf("UPDATE `%s` SET n = n + 100;", m.Tables[0].Name), fmt.Sprintf("CREATE TABLE `gone%d.csv` (a);", cidx), "ROLLBACK;")
		}
		for i, t := range m.Tables {
			if touched > 0 && r.Bool(0.3) {
				continue
			}
			touched++
			q := "`" + t.Name + "`"
			if r.Bool(0.35) {
				// other ways of touching the table first in its transaction: whatever handler and cached view the
				// opener leaves, the COMMIT that follows must still go through a temp file and a rename
				m.Stmts = append(m.Stmts, r.PickS(
					fmt.Sprintf("CREATE TABLE IF NOT EXISTS %s (id, n, s);", q),
					fmt.Sprintf("CREATE TABLE IF NOT EXISTS %s (id, n, s);", q),
					fmt.Sprintf("SELECT COUNT(*) FROM %s;", q),
					fmt.Sprintf("SELECT id FROM %s WHERE id < 0 FOR UPDATE;", q),
					fmt.Sprintf("SHOW FIELDS FROM %s;", q),
					fmt.Sprintf("DECLARE oc%d CURSOR FOR SELECT id FROM %s; OPEN oc%d; CLOSE oc%d; DISPOSE CURSOR oc%d;", i, q, i, i, i),
					fmt.Sprintf("UPDATE %s SET n = n WHERE id < 0;", q)))
			}
			switch r.Intn(8) {
			case 4:
				// statements that rebuild the whole table or change how it is written
				m.Stmts = append(m.Stmts, fmt.Sprintf("ALTER TABLE %s ADD x%d DEFAULT n * 2;", q, cidx), fmt.Sprintf("UPDATE %s SET n = x%d + 1;", q, cidx), fmt.Sprintf("ALTER TABLE %s DROP x%d;", q, cidx))
			case 5:
				if t.Format == "csv" || t.Format == "tsv" {
					m.Stmts = append(m.Stmts, fmt.Sprintf("ALTER TABLE %s SET %s;", q, r.PickS("LINE_BREAK TO CRLF", "ENCLOSE_ALL TO TRUE", "ENCODING TO UTF8M", "LINE_BREAK TO LF")), fmt.Sprintf("UPDATE %s SET n = n + 3;", q))
				} else {
					m.Stmts = append(m.Stmts, fmt.Sprintf("ALTER TABLE %s RENAME s TO s%d;", q, cidx), fmt.Sprintf("ALTER TABLE %s RENAME s%d TO s;", q, cidx))
				}
			case 6:
				m.Stmts = append(m.Stmts, fmt.Sprintf("REPLACE INTO %s (id, n, s) USING (id) VALUES (1, 5, 'r'), (%d, 5, 'r');", q, 9500+cidx*10+i))
			case 7:
				o := "`" + m.Tables[(i+1)%len(m.Tables)].Name + "`"
				m.Stmts = append(m.Stmts, fmt.Sprintf("UPDATE %s SET n = (SELECT COUNT(*) FROM %s x) WHERE id %% 2 = 1;", q, o), fmt.Sprintf("INSERT INTO %s SELECT id + %d, n, s FROM %s y WHERE id < 3;", q, 7000+cidx*100+i*10, o))
			case 0:
				m.Stmts = append(m.Stmts, fmt.Sprintf("UPDATE %s SET n = n + 1;", q))
			case 1:
				m.Stmts = append(m.Stmts, fmt.Sprintf("UPDATE %s SET s = s || '-x' WHERE id %% 2 = 0;", q))
			case 2:
				m.Stmts = append(m.Stmts, fmt.Sprintf("INSERT INTO %s VALUES (%d, 7, 'new row %d');", q, 9000+cidx*10+i, cidx))
			default:
				m.Stmts = append(m.Stmts, fmt.Sprintf("DELETE FROM %s WHERE id %% 3 = 1;", q), fmt.Sprintf("INSERT INTO %s VALUES (%d, 1, 'y');", q, 8000+cidx*10+i))
			}
		}
		if cidx > 0 && strings.Contains(strings.Join(m.Stmts, " "), "CREATE TABLE `new0.csv`") && r.Bool(0.6) {
			// a table created and committed earlier in this session is changed again
			m.Stmts = append(m.Stmts, "INSERT INTO `new0.csv` VALUES (2, 'later');")
		}
		if r.Bool(0.3) {
			m.Stmts = append(m.Stmts, fmt.Sprintf("CREATE TABLE `new%d.csv` (a, b);", cidx), fmt.Sprintf("INSERT INTO `new%d.csv` VALUES (1, 'created');", cidx))
		} else if r.Bool(0.15) {
			// created from a query, in another format
			m.Stmts = append(m.Stmts, fmt.Sprintf("CREATE TABLE `made%d.%s` (a, b) AS SELECT id, s FROM `%s`;", cidx, r.PickS("tsv", "json", "csv"), m.Tables[0].Name))
		}
		if cidx < ncommit-1 || r.Bool(0.5) {
			m.Stmts = append(m.Stmts, "COMMIT;")
		}
	}
	sc.Procs = []ProcSpec{{Program: strings.Join(m.Stmts, "\n"), CPU: r.Pick(1, 1, 2), WaitTimeoutS: 10.0000001, RetryDelayNs: 10001009, Quiet: true, Format: "CSV", Flags: swarmFlags(Sub(seed, "c10-flags"), 0.35)}}
	avoidBareCR(sc.Procs[0].Flags, sc.Files, sc.Procs[0].Program)
	sc.Meta = map[string]string{"workload": mustJSON(m)}
	sc.Knobs = Knobs{RowStride: 64, Pool: "lifo"}
	sc.Torn = &TornSpec{Proc: 0, All: true, Frac: r.Float()}
	sc.Sched = SchedSpec{Strategy: "uniform", Seed: hashLabel(seed, "s")}
	sc.MaxSteps = 60000
	return sc
}

func (c10) Shrinks(c *Case) []*Case {
	var meta c10Meta
	mustUnJSON(c.Scenario.Meta["workload"], &meta)
	var out []*Case
	for i := len(meta.Stmts) - 1; i >= 0; i-- {
		if len(meta.Stmts) < 2 {
			break
		}
		cand := cloneCase(c)
		var m c10Meta
		mustUnJSON(cand.Scenario.Meta["workload"], &m)
		m.Stmts = append(m.Stmts[:i:i], m.Stmts[i+1:]...)
		cand.Scenario.Procs[0].Program = strings.Join(m.Stmts, "\n")
		cand.Scenario.Meta["workload"] = mustJSON(&m)
		out = append(out, cand)
	}
	// fewer rows
	for ti := range meta.Tables {
		if meta.Tables[ti].Rows > 2 {
			cand := cloneCase(c)
			var m c10Meta
			mustUnJSON(cand.Scenario.Meta["workload"], &m)
			m.Tables[ti].Rows /= 2
			for fi := range cand.Scenario.Files {
				if cand.Scenario.Files[fi].Name == m.Tables[ti].Name {
					cand.Scenario.Files[fi].Content = genTableContent(m.Tables[ti].Format, m.Tables[ti].Rows, nil)
				}
			}
			cand.Scenario.Meta["workload"] = mustJSON(&m)
			out = append(out, cand)
		}
	}
	return out
}

type crashImage struct {
	Commit   int // index of the commit in progress
	Point    string
	Nth      int // n-th hit of Point in this process (for the real-process tier)
	Step     int64
	Dir      DirState
	Inferred bool // reconstructed from inotify events between two scheduling points
}

type crashObserver struct {
	watch    *dirWatch
	inferred int
	always   bool // no commit events in this tree: every arrival of the run is a crash point
	inCommit bool
	commit   int
	images   []crashImage
	versions []DirState // directory after start / after each commit.done
	hits     map[string]int
}

func (co *crashObserver) OnArrival(k *Kernel, g *G, a *arrival) {
	if g.proc.idx != 0 {
		return
	}
	if co.hits == nil {
		co.hits = map[string]int{}
		co.versions = append(co.versions, SnapshotDir(k.Dir))
		co.watch = newDirWatch(k.Dir)
	}
	co.hits[a.point]++
	evs := co.watch.Drain()
	wasIn := co.inCommit
	if (a.point == "tx.commit.truncate" || co.always) && !co.inCommit {
		co.inCommit = true
	}
	if co.inCommit {
		now := SnapshotDir(k.Dir)
		if wasIn && len(co.images) > 0 {
			// more than one file-system operation since the previous crash point: the
			// states in between are crash points too
			for j, st := range intermediateStates(co.images[len(co.images)-1].Dir, now, evs) {
				co.inferred++
				co.images = append(co.images, crashImage{Commit: co.commit, Point: fmt.Sprintf("%s~after-operation-%d-of-the-step-before", a.point, j+1), Nth: co.hits[a.point], Step: k.step.Load(), Dir: st, Inferred: true})
			}
		}
		co.images = append(co.images, crashImage{Commit: co.commit, Point: a.point, Nth: co.hits[a.point], Step: k.step.Load(), Dir: now})
	}
	if a.point == "tx.commit.done" && co.inCommit && !co.always {
		co.inCommit = false
		co.commit++
		co.versions = append(co.versions, SnapshotDir(k.Dir))
	}
}

func (c10) Eval(t *testing.T, c *Case, dec func(int) *Decider) *Outcome {
	sc := c.Scenario
	o := &Outcome{}
	const prop = "C10"
	// A tree whose Commit lost its begin / end events: every arrival of the run is
	// a crash point, and the committed versions of the tables come from fault-free
	// runs of the program cut after each COMMIT.
	noCommitEvents := hookMissing("tx.commit.truncate", "tx.commit.done")
	co := &crashObserver{always: noCommitEvents}
	res, _ := Execute(t, sc, dec(0), co)
	co.watch.Close()
	o.Runs = 1
	o.Stats.Probes = addProbe(o.Stats.Probes, "crash-images-inferred-between-hooks", co.inferred)
	o.addStats(res.Stats)
	o.LogHash, o.TraceHash = res.LogHash, res.TraceHash
	o.Trace = tail(res.Log, 300)
	if res.Hang != "" || res.LimitHit || res.BubbleErr != "" || res.Procs[0].Panic != "" {
		o.viol(prop, "termination", "hang-or-panic", fmt.Sprintf("commit run did not terminate normally: %s %s %s", res.Hang, res.BubbleErr, res.Procs[0].Panic))
		return o
	}
	var m0 c10Meta
	mustUnJSON(sc.Meta["workload"], &m0)
	if p := res.Procs[0]; p.ExitCode != 0 && m0.StaleTemp != "" && (strings.Contains(p.ErrType, "Timeout") || strings.Contains(p.ErrText, "deadline exceeded")) {
		// the stale temp file keeps csvq out: it must have left every file as it was
		o.Stats.probe("stale-temp-file:refused-after-wait-timeout")
		for _, f := range sc.Files {
			if f.Dir || f.LinkTo != "" || f.HardTo != "" {
				continue
			}
			if got, ok := res.Final[f.Name]; !ok || got.Data != f.Content {
				o.viol(prop, "old-or-new", "table-changed-by-refused-run", fmt.Sprintf("csvq gave up on a table with a stale temp file (%s), yet %s is not what it was", firstLine(p.ErrText), f.Name))
			}
		}
		o.NonTrivial = true
		return o
	}
	if res.Procs[0].ExitCode != 0 {
		// the scenario itself failed (no fault is injected here): not a C10 matter, but it
		// must not happen silently
		o.viol(prop, "scenario", "scenario-error:"+errClass(res.Procs[0].ErrText), "fault-free commit scenario failed: "+res.Procs[0].ErrText)
		return o
	}
	o.NonTrivial = len(co.images) > 0
	o.Stats.Probes = addProbe(o.Stats.Probes, "crash-images", len(co.images))
	if strings.Contains(sc.Procs[0].Program, "`sub/") {
		o.Stats.probe("table-in-sub-directory")
	}
	if strings.Contains(sc.Procs[0].Program, "'later'") {
		o.Stats.probe("created-table-changed-in-later-commit")
	}
	pre := map[string]bool{}
	for _, f := range sc.Files {
		pre[f.Name] = true
	}
	if noCommitEvents {
		o.Stats.probe("oracle-fallback:versions-from-prefix-runs")
		var meta c10Meta
		mustUnJSON(sc.Meta["workload"], &meta)
		co.versions = co.versions[:1]
		for i, st := range meta.Stmts {
			if st != "COMMIT;" && i != len(meta.Stmts)-1 {
				continue
			}
			psc := *sc
			psc.Torn = nil
			psc.Procs = append([]ProcSpec{}, sc.Procs...)
			psc.Procs[0].Program = strings.Join(meta.Stmts[:i+1], "\n")
			pres, _ := Execute(t, &psc, dec(10+i))
			o.Runs++
			co.versions = append(co.versions, pres.Final)
		}
		for _, img := range co.images {
			for name := range pre {
				f, exists := img.Dir[name]
				known := false
				for _, v := range co.versions {
					if exists && v[name].Data == f.Data {
						known = true
					}
				}
				switch {
				case !exists:
					o.viol(prop, "old-or-new", "table-missing", fmt.Sprintf("crash image at %s (step %d): table %s does not exist (directory: %s)", img.Point, img.Step, name, img.Dir.String()))
				case !known:
					o.viol(prop, "old-or-new", "table-not-a-committed-version", fmt.Sprintf("crash image at %s (step %d): table %s holds %d bytes that are none of its committed versions", img.Point, img.Step, name, len(f.Data)))
				default:
					o.Stats.probe("image:some-version")
				}
			}
		}
		co.images = nil // the event-based judgement below does not apply
	}
	judge := func(img DirState, commit int, label string) bool {
		ok := true
		old, new := co.versions[commit], co.versions[min(commit+1, len(co.versions)-1)]
		for name := range pre {
			f, exists := img[name]
			switch {
			case !exists:
				o.viol(prop, "old-or-new", "table-missing", fmt.Sprintf("crash image %s: table %s does not exist (directory: %s)", label, name, img.String()))
				ok = false
			case f.Data == old[name].Data:
				o.Stats.probe("image:old")
			case f.Data == new[name].Data:
				o.Stats.probe("image:new")
			default:
				kind := "mixed-or-truncated"
				if len(f.Data) == 0 {
					kind = "empty"
				} else if strings.HasPrefix(new[name].Data, f.Data) {
					kind = "truncated-new"
				}
				o.viol(prop, "old-or-new", "table-"+kind, fmt.Sprintf("crash image %s: table %s holds %d bytes that are neither its previous (%d bytes) nor its new (%d bytes) contents", label, name, len(f.Data), len(old[name].Data), len(new[name].Data)))
				ok = false
			}
		}
		return ok
	}
	points := map[string]bool{}
	for _, img := range co.images {
		judge(img.Dir, img.Commit, fmt.Sprintf("at %s#%d (step %d, commit %d)", img.Point, img.Nth, img.Step, img.Commit))
		points[img.Point] = true
		o.Stats.probe("image@" + pointClass(img.Point))
	}
	// usability of one image after removing the hidden control files
	if len(co.images) > 0 && len(o.Violations) == 0 {
		r := Sub(c.Seed, "usable")
		img := co.images[r.Intn(len(co.images))]
		for img.Inferred {
			img = co.images[r.Intn(len(co.images))]
		}
		usc := &Scenario{Prop: prop, Knobs: sc.Knobs, Sched: SchedSpec{Strategy: "uniform", Seed: 1}, MaxSteps: 60000}
		for name, f := range img.Dir {
			if IsControlFile(name) || f.IsDir {
				continue
			}
			usc.Files = append(usc.Files, FileSpec{Name: name, Content: f.Data})
		}
		var meta c10Meta
		mustUnJSON(sc.Meta["workload"], &meta)
		var st []string
		for _, tb := range meta.Tables {
			st = append(st, fmt.Sprintf("SELECT COUNT(*) FROM `%s`;", tb.Name), fmt.Sprintf("UPDATE `%s` SET n = 42;", tb.Name))
		}
		st = append(st, "COMMIT;")
		usc.Procs = []ProcSpec{{Program: strings.Join(st, "\n"), CPU: 1, WaitTimeoutS: 0.5, RetryDelayNs: 10001009, Quiet: true, Format: "CSV", Flags: sc.Procs[0].Flags}}
		ures, _ := Execute(t, usc, dec(1))
		o.Runs++
		if ures.Procs[0].ExitCode != 0 || ures.Hang != "" {
			o.viol(prop, "usable-after-cleanup", "image-not-usable", fmt.Sprintf("after removing the hidden control files from the crash image at %s#%d a fresh process fails: %s %s", img.Point, img.Nth, ures.Procs[0].ErrText, ures.Hang))
		} else {
			o.Stats.probe("image-usable")
		}
	}
	// fidelity: kill the real binary at the same point and compare directories
	if bin := os.Getenv("VERIF_CSVQ_BIN"); bin != "" && len(co.images) > 0 && sc.Procs[0].CPU == 1 {
		r := Sub(c.Seed, "real")
		n := 1
		if c.Tier == "thorough" {
			n = 2
		}
		for i := 0; i < n; i++ {
			img := co.images[r.Intn(len(co.images))]
			if img.Inferred || strings.HasSuffix(img.Point, ".mid") || strings.HasPrefix(img.Point, "mutex.") || strings.HasPrefix(img.Point, "auto:") {
				continue // the real-process writer splits at half, not at the simulated fraction
			}
			dir, err := realCrash(bin, sc, img.Point, img.Nth)
			o.RealProc++
			if err != nil && strings.Contains(err.Error(), "timed out") {
				o.Notes = append(o.Notes, "a real-process run stalled once: "+err.Error())
				dir, err = realCrash(bin, sc, img.Point, img.Nth)
				o.RealProc++
			}
			if err != nil {
				o.viol(prop, "fidelity", "real-process-error", err.Error())
				continue
			}
			if judge(dir, img.Commit, fmt.Sprintf("of the REAL process killed at %s#%d", img.Point, img.Nth)) {
				o.Stats.probe("real-kill-judged")
			}
			if !sameDir(dir, img.Dir) {
				o.Stats.probe("real-vs-sim-mismatch")
				o.viol(prop, "fidelity", "sim-real-mismatch", fmt.Sprintf("directory of the real process killed at %s#%d differs from the simulated crash image: real %s, simulated %s", img.Point, img.Nth, dir.String(), img.Dir.String()))
			} else {
				o.Stats.probe("real-equals-sim")
			}
		}
	}
	// syscall-level crash enumeration of the REAL binary (independent of the hooks):
	// strace kills the process on entry to the N-th rename / unlink / ftruncate /
	// write / copy_file_range ... for N = 1, 2, ... until it survives
	if bin := os.Getenv("VERIF_CSVQ_BIN"); bin != "" && sc.Procs[0].CPU == 1 && len(o.Violations) == 0 && straceOK() {
		p := 0.03
		if c.Tier == "thorough" {
			p = 0.12
		}
		if Sub(c.Seed, "strace").Bool(p) && straceTierAllowed(o) {
			govT0 := time.Now()
			defer func() { govSpent += time.Since(govT0) }()
			runs, kills := 0, 0
			// in half of these scenarios the first rename of the process fails with an errno
			// for which a "fallback" is conceivable (table is a mount point, other device,
			// no permission on the directory): whatever csvq does then, a kill at any later
			// system call must still find every table complete
			renameErr := ""
			if rs := Sub(c.Seed, "strace-rename"); rs.Bool(0.5) {
				renameErr = rs.PickS("EBUSY", "EXDEV", "EPERM", "EACCES")
				o.Stats.fault("real-rename-" + renameErr)
			}
			for ci, class := range straceClasses {
				if renameErr != "" && ci == 0 {
					continue
				}
				for n := 1; n <= 40 && runs < 90; n++ {
					dir, killed, err := straceCrash(bin, sc, class, n, renameErr)
					runs++
					o.RealProc++
					if err != nil {
						o.Infra = append(o.Infra, "strace tier: "+err.Error())
						break
					}
					if !killed {
						break
					}
					kills++
					// every pre-existing table must hold one of its committed versions
					for name := range pre {
						f, exists := dir[name]
						if !exists {
							o.viol(prop, "old-or-new", "real-syscall-crash:table-missing", fmt.Sprintf("REAL csvq killed on entry to %s #%d%s: table %s does not exist (directory: %s)", class, n, afterRename(renameErr), name, dir.String()))
							continue
						}
						ok := false
						for _, v := range co.versions {
							if v[name].Data == f.Data {
								ok = true
							}
						}
						if !ok {
							kind := "mixed-or-truncated"
							if len(f.Data) == 0 {
								kind = "empty"
							}
							o.viol(prop, "old-or-new", "real-syscall-crash:table-"+kind, fmt.Sprintf("REAL csvq killed on entry to %s #%d%s: table %s holds %d bytes that are none of its committed versions", class, n, afterRename(renameErr), name, len(f.Data)))
						}
					}
				}
			}
			o.Stats.Probes = addProbe(o.Stats.Probes, "real-syscall-crash-points", kills)
			o.Stats.probe("real-syscall-crash-scenarios")
		}
	}
	pl := make([]string, 0, len(points))
	for p := range points {
		pl = append(pl, p)
	}
	o.Sample = map[string]interface{}{"seed": c.Seed, "program": sc.Procs[0].Program, "tables": sc.Meta["workload"], "crash_images": len(co.images), "crash_points": pl, "commits": len(co.versions) - 1}
	return o
}

func addProbe(m map[string]int, name string, n int) map[string]int {
	if m == nil {
		m = map[string]int{}
	}
	m[name] += n
	return m
}

func sameDir(a, b DirState) bool {
	if len(a) != len(b) {
		return false
	}
	for n, f := range a {
		g, ok := b[n]
		if !ok || g.Data != f.Data {
			return false
		}
	}
	return true
}

// realCrash runs the real csvq binary (built from /repo with -tags verif) on a
// copy of the scenario and lets it SIGKILL itself at the nth hit of point.
func realCrash(bin string, sc *Scenario, point string, nth int) (DirState, error) {
	setupBase()
	dir, err := os.MkdirTemp(BaseDir, "real-")
	if err != nil {
		return nil, err
	}
	defer os.RemoveAll(dir)
	if err := writeFiles(dir, sc.Files); err != nil {
		return nil, err
	}
	plan, _ := json.Marshal(map[string]string{"crash": fmt.Sprintf("%s#%d", point, nth)})
	cmd := exec.Command(bin, append(append([]string{"--repository", dir, "--quiet", "--cpu", "1", "--format", "CSV"}, cliFlagArgs(sc.Procs[0].Flags)...), sc.Procs[0].Program)...)
	cmd.Env = append(os.Environ(), "VERIF_PLAN="+string(plan))
	cmd.Dir = filepath.Join(BaseDir, "cwd")
	done := make(chan error, 1)
	if err := cmd.Start(); err != nil {
		return nil, err
	}
	go func() { done <- cmd.Wait() }()
	select {
	case err := <-done:
		if err == nil {
			return nil, fmt.Errorf("real process was not killed at %s#%d (it ran to completion)", point, nth)
		}
		if !strings.Contains(err.Error(), "killed") {
			return nil, fmt.Errorf("real process ended with %v instead of being killed at %s#%d", err, point, nth)
		}
	case <-time.After(30 * time.Second):
		_ = cmd.Process.Kill()
		return nil, fmt.Errorf("real process timed out")
	}
	return SnapshotDir(dir), nil
}

var straceClasses = []string{"rename,renameat,renameat2", "unlink,unlinkat", "ftruncate", "write,pwrite64", "copy_file_range,sendfile", "link,linkat,symlink,symlinkat"}

var straceState int // 0 unknown, 1 usable, 2 not usable

// straceOK reports whether strace can trace and inject in this environment.
func straceOK() bool {
	if straceState == 0 {
		straceState = 2
		if path, err := exec.LookPath("strace"); err == nil {
			cmd := exec.Command(path, "-f", "-o", "/dev/null", "-e", "trace=getpid", "-e", "inject=getpid:signal=SIGKILL:when=60000", "/bin/true")
			if err := cmd.Run(); err == nil {
				straceState = 1
			}
		}
	}
	return straceState == 1
}

// straceCrash runs the scenario in the real binary and kills it on entry to the
// n-th system call of the class. It returns the directory afterwards and
// whether the process was killed.
func afterRename(errno string) string {
	if errno == "" {
		return ""
	}
	return " (after its first rename had failed with " + errno + ")"
}

func straceCrash(bin string, sc *Scenario, class string, n int, renameErr string) (DirState, bool, error) {
	setupBase()
	dir, err := os.MkdirTemp(BaseDir, "strace-")
	if err != nil {
		return nil, false, err
	}
	defer os.RemoveAll(dir)
	if err := writeFiles(dir, sc.Files); err != nil {
		return nil, false, err
	}
	args := []string{"-f", "-o", "/dev/null", "-e", "trace=" + class, "-e", fmt.Sprintf("inject=%s:signal=SIGKILL:when=%d", class, n)}
	if renameErr != "" {
		args = []string{"-f", "-o", "/dev/null", "-e", "trace=" + class + "," + straceClasses[0], "-e", fmt.Sprintf("inject=%s:signal=SIGKILL:when=%d", class, n),
			"-e", fmt.Sprintf("inject=%s:error=%s:when=1", straceClasses[0], renameErr)}
	}
	args = append(args, bin, "--repository", dir, "--quiet", "--cpu", "1", "--format", "CSV")
	args = append(append(args, cliFlagArgs(sc.Procs[0].Flags)...), sc.Procs[0].Program)
	cmd := exec.Command("strace", args...)
	cmd.Dir = filepath.Join(BaseDir, "cwd")
	cmd.Env = append(os.Environ(), "GOMAXPROCS=1")
	done := make(chan error, 1)
	if err := cmd.Start(); err != nil {
		return nil, false, err
	}
	go func() { done <- cmd.Wait() }()
	select {
	case err := <-done:
		killed := err != nil
		if renameErr != "" {
			// the process may also end with an error of its own (the failed rename): only a
			// death by signal counts as "killed at this point"
			killed = false
			if ee, ok := err.(*exec.ExitError); ok {
				if ws, ok := ee.Sys().(syscall.WaitStatus); ok && ws.Signaled() {
					killed = true
				}
			}
		}
		return SnapshotDir(dir), killed, nil
	case <-time.After(60 * time.Second):
		_ = cmd.Process.Kill()
		return nil, false, fmt.Errorf("strace run did not end within 60 s")
	}
}
