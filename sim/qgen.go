package sim

import (
	"fmt"
	"strings"
)

// Query workload shared by C12, C13 and C14: two tables
//
//	a(id, g, v, s)   id unique, g group key, v integer or empty, s word
//	b(id, g, w)
//
// and programs made of SELECTs (filters, joins, grouping, DISTINCT, set
// operators, analytic functions, sub-queries, ORDER BY/LIMIT, user-defined
// scalar and aggregate functions) and DML + COMMIT. Nothing in them depends on
// time, randomness or variable assignment inside a query, so every result is a
// function of the tables.

type qMeta struct {
	NA      int      `json:"na"`
	NB      int      `json:"nb"`
	Groups  int      `json:"groups"`
	Stmts   []string `json:"stmts"`
	Big     bool     `json:"big"`
	Prelude []string `json:"prelude"`
}

var qwords = []string{"ant", "bee", "cat", "dog", "eel", "fox", "gnu", "hen", "Ant", " bee", "cat ", "DOG", "", "owl", "pig", "rat"}

func genTableA(n, groups int, r *Rng) string {
	var b strings.Builder
	b.WriteString("id,g,v,s\n")
	for i := 1; i <= n; i++ {
		v := fmt.Sprint(r.Intn(50) - 10)
		if r.Bool(0.08) {
			v = ""
		}
		fmt.Fprintf(&b, "%d,%d,%s,%s\n", i, r.Intn(groups), v, qwords[r.Intn(len(qwords))])
	}
	return b.String()
}

func genTableB(n, na, groups int, r *Rng) string {
	var b strings.Builder
	b.WriteString("id,g,w\n")
	for i := 1; i <= n; i++ {
		id := 1 + r.Intn(na+5)
		fmt.Fprintf(&b, "%d,%d,%d\n", id, r.Intn(groups+1), r.Intn(30))
	}
	return b.String()
}

func genCond(r *Rng, alias string, groups int) string {
	p := alias
	if p != "" {
		p += "."
	}
	switch r.Intn(9) {
	case 0:
		return fmt.Sprintf("%sv > %d", p, r.Intn(30))
	case 1:
		return fmt.Sprintf("%sg = %d", p, r.Intn(groups))
	case 2:
		return fmt.Sprintf("%ss LIKE '%s%%'", p, []string{"a", "b", "c", "D", "o"}[r.Intn(5)])
	case 3:
		return fmt.Sprintf("%sv IS NULL", p)
	case 4:
		return fmt.Sprintf("%sid BETWEEN %d AND %d", p, r.Intn(20), 20+r.Intn(400))
	case 5:
		return fmt.Sprintf("(%sv %% 2 = 0 OR %sg IN (%d, %d))", p, p, r.Intn(groups), r.Intn(groups))
	case 6:
		return fmt.Sprintf("NOT (%sv < %d) AND %ss <> 'cat'", p, r.Intn(20), p)
	case 7:
		return fmt.Sprintf("%sid %% %d = %d", p, 2+r.Intn(5), r.Intn(2))
	default:
		return fmt.Sprintf("UPPER(TRIM(%ss)) = '%s'", p, []string{"ANT", "BEE", "CAT", "DOG"}[r.Intn(4)])
	}
}

const udfPrelude = `VAR @x := 'dog'; VAR @n := 5; VAR @f := 2.5; VAR @d := DATETIME('2012-02-03 09:18:15'); VAR @u;
DECLARE f FUNCTION (@x, @y) AS BEGIN IF @x IS NULL THEN RETURN @y; END IF; RETURN @x * 2 + @y; END;
DECLARE usum AGGREGATE (list, @init DEFAULT 0) AS BEGIN VAR @t := @init; VAR @e; WHILE @e IN list DO IF @e IS NOT NULL THEN @t := @t + @e; END IF; END WHILE; RETURN @t; END;`

func genQuery(r *Rng, m *qMeta) []string {
	G := m.Groups
	small := !m.Big
	for {
		switch r.Intn(76) {
		case 72, 73:
			// tables of the WITH clause referenced once per outer row (every reference gets the rows, none may
			// write into them), with a value computed from the outer row inside the sub-query
			return []string{r.PickS(
				"WITH t AS (SELECT id, w FROM b) SELECT a.id, (SELECT id FROM t ORDER BY w * a.g, id LIMIT 1) AS best FROM a;",
				"WITH t AS (SELECT id, w FROM b) SELECT a.id, (SELECT COUNT(*) FROM t WHERE t.w + a.g > 3) AS n, (SELECT MAX(w - a.id % 5) FROM t) AS m FROM a;",
				"WITH t (k) AS (SELECT g FROM b) SELECT a.id, (SELECT LISTAGG(STRING(k * a.g), ',') WITHIN GROUP (ORDER BY k * a.g, k) FROM t) AS l FROM a;",
				"WITH t AS (SELECT id, g FROM b), u AS (SELECT g, id FROM t) SELECT a.id, (SELECT id FROM u WHERE u.g = a.g ORDER BY id * (1 + a.id % 3) DESC LIMIT 1) AS x, (SELECT COUNT(*) FROM t x JOIN u y ON x.id = y.id AND x.g >= a.g) AS c FROM a;")}
		case 74, 75:
			// functions that are objects with state inside (formatters, parsers), from every worker
			return []string{r.PickS(
				"SELECT id, FORMAT('%05d|%s|%s', id, s, g), FORMAT('%s', v) FROM a;",
				"SELECT id, FORMAT('%-6s|%+d|%8.3f', s, g, v / 3.0), NUMBER_FORMAT(id * 1000.5, 2, '.', ','), FORMAT('%q %x', s, id) FROM a;",
				"SELECT id, DATETIME_FORMAT(ADD_DAY(@d, id), '%Y-%m-%d %H:%i:%s'), FORMAT('%d/%s', id, s), JSON_OBJECT(FORMAT('%s', s) AS f) FROM a;")}
		case 69, 70:
			// prepared statements and cursors whose placeholders are evaluated for every record (by every worker)
			return []string{"PREPARE pq FROM 'SELECT id, v + ? AS w, s || ? AS t FROM a WHERE IFNULL(v, 0) > ? AND s <> ?';", "EXECUTE pq USING 1, 'x', 0, 'none';", "EXECUTE pq USING @n, @x, -100, (SELECT MIN(s) FROM a);",
				"PREPARE pg FROM 'SELECT g + ? AS k, COUNT(*), SUM(v * ?) FROM a GROUP BY g + ? HAVING COUNT(*) > ?';", "EXECUTE pg USING 10, 2, 10, 0;", "DISPOSE PREPARE pq;", "DISPOSE PREPARE pg;"}
		case 71:
			return []string{"PREPARE pc FROM 'SELECT id FROM a WHERE g = ? OR s = ?';", "DECLARE cq CURSOR FOR pc;", "OPEN cq USING 1, 'cat';", "VAR @cid;", "FETCH cq INTO @cid;", "PRINT @cid;", "CLOSE cq;",
				"OPEN cq USING (SELECT MIN(g) FROM a), @x;", "FETCH cq INTO @cid;", "PRINT @cid;", "CLOSE cq;", "DISPOSE CURSOR cq;", "DISPOSE PREPARE pc;", "PREPARE pu FROM 'UPDATE a SET v = IFNULL(v, 0) + ? WHERE id % ? = 0';", "EXECUTE pu USING 3, 2;", "SELECT * FROM a;", "DISPOSE PREPARE pu;"}
		case 63, 64, 65:
			// many functions per row at once, all of them valid: every worker is inside every one of them
			return []string{fmt.Sprintf("SELECT id, %s FROM a;", exprList(r, r.Range(10, 18))), fmt.Sprintf("SELECT COUNT(*) FROM a WHERE LEN(STRING(%s)) + LEN(STRING(%s)) >= 0 OR TRUE;", c14Exprs[r.Intn(len(c14Exprs))], c14Exprs[r.Intn(len(c14Exprs))])}
		case 66:
			// keys that many rows of the target share: every worker finds matches for the same new record
			return []string{"REPLACE INTO a (g, v) USING (g) VALUES (0, 1000), (1, 2000), (77, 1);", "SELECT * FROM a;", "REPLACE INTO a (id, g, v, s) USING (g, s) SELECT MIN(id), g, COUNT(*), s FROM a GROUP BY g, s;", "SELECT * FROM a;"}
		case 67:
			return []string{"REPLACE INTO a (s, v) USING (s) SELECT DISTINCT s, 5 FROM a WHERE s IS NOT NULL;", "REPLACE INTO b (g, w) USING (g) SELECT g, COUNT(*) FROM a GROUP BY g;", "SELECT * FROM a;", "SELECT * FROM b;"}
		case 68:
			// comma-separated FROM lists
			return []string{"SELECT x.id, y.id FROM a x, b y WHERE x.id = y.id;", "SELECT COUNT(*) FROM a x, a y WHERE x.g = y.g AND x.id < y.id;", "SELECT id, (SELECT COUNT(*) FROM b y, b z WHERE y.g = a.g AND z.id = y.id) AS n FROM a;"}
		case 57, 58, 59, 60, 61, 62:
			// every built-in, aggregate and analytic function csvq knows, with column-valued
			// arguments, on a table that several workers share (the statement may well
			// fail: then it must fail for every --cpu alike)
			ensureFnNames()
			cols := []string{"id", "g", "v", "s", "id", "v", "s", "v * 1.5", "s || 'x'", "NULL"}
			params := []string{"2", "'%Y-%m-%d'", "'a'", "1", "g", "id % 3", "s", "0", "'UTC'", "@n", "@x"}
			col := func() string { return cols[r.Intn(len(cols))] }
			args := func() string {
				a := []string{col()}
				for i, n := 0, r.Pick(0, 0, 1, 1, 2); i < n; i++ {
					a = append(a, params[r.Intn(len(params))])
				}
				return strings.Join(a, ", ")
			}
			var out []string
			for i, n := 0, r.Range(2, 4); i < n; i++ {
				switch r.Intn(5) {
				case 0, 1:
					out = append(out, fmt.Sprintf("SELECT id, %s(%s) AS f1, %s(%s) AS f2 FROM a;", builtinNames[r.Intn(len(builtinNames))], args(), builtinNames[r.Intn(len(builtinNames))], args()))
				case 2:
					d := r.PickS("", "", "DISTINCT ")
					out = append(out, fmt.Sprintf("SELECT g, %s(%s%s) AS a1, %s(%s) AS a2 FROM a GROUP BY g;", aggNames[r.Intn(len(aggNames))], d, col(), aggNames[r.Intn(len(aggNames))], col()))
				case 3:
					out = append(out, fmt.Sprintf("SELECT id, %s(%s) OVER (PARTITION BY %s ORDER BY id) AS w1 FROM a;", anaNames[r.Intn(len(anaNames))], args(), r.PickS("g", "id % 7", "s")))
				default:
					out = append(out, fmt.Sprintf("SELECT id, %s(%s) OVER (PARTITION BY g ORDER BY v, id) AS w2, %s(%s) OVER () AS w3 FROM a;", aggNames[r.Intn(len(aggNames))], col(), aggNames[r.Intn(len(aggNames))], col()))
				}
			}
			return out
		case 54, 55:
			// analytic functions whose parameters are taken from the rows (evaluated once per partition, per worker)
			return []string{"SELECT id, LAG(v, 1, v) OVER (PARTITION BY g ORDER BY id) AS l1, LEAD(s, 2, s) OVER (PARTITION BY g ORDER BY id) AS l2, LAG(v, 1, id) OVER (PARTITION BY id % 7 ORDER BY id) AS l3 FROM a;", "SELECT id, NTH_VALUE(v, 2) OVER (PARTITION BY g ORDER BY id) AS n1, FIRST_VALUE(s) OVER (PARTITION BY id % 9 ORDER BY id) AS f1, LEAD(v, 1, -g) OVER (PARTITION BY id % 5 ORDER BY id DESC) AS l4 FROM a;"}
		case 56:
			// row-level functions that build a view of their own from the current record
			return []string{"SELECT JSON_OBJECT(id AS x, s AS y) AS j, JSON_OBJECT(s AS y, INTEGER(v) AS x) AS k FROM a;", "SELECT id, JSON_OBJECT(id, g, v AS val, UPPER(s) AS up), JSON_OBJECT() FROM a WHERE id > 0;"}
		case 52, 53:
			// expressions evaluated inside every group's own view (ORDER BY inside list functions, nested aggregates), many groups
			return []string{"SELECT g, COUNT(*), LISTAGG(s, ',') WITHIN GROUP (ORDER BY v * 2, id) FROM a GROUP BY g;", "SELECT id % 40 AS k, COUNT(*), LISTAGG(s, '') WITHIN GROUP (ORDER BY id * -1), JSON_AGG(v + 1) FROM a GROUP BY id % 40;", "SELECT g, SUM(v * 2), MAX(UPPER(s) || STRING(id)), usum(v + id) FROM a GROUP BY g HAVING COUNT(*) > 0;"}
		case 50, 51:
			// DISTINCT inside aggregates: which of several equal values is kept, and in which order
			return []string{"SELECT LISTAGG(DISTINCT s, ','), JSON_AGG(DISTINCT v), SUM(DISTINCT v * 0.1), AVG(DISTINCT v / 3.0) FROM a;", "SELECT g, LISTAGG(DISTINCT s, '|'), JSON_AGG(DISTINCT s), COUNT(DISTINCT s), usum(DISTINCT v) FROM a GROUP BY g;", "SELECT LISTAGG(DISTINCT s, ',') WITHIN GROUP (ORDER BY s) FROM a;", "SELECT id, LISTAGG(DISTINCT s, ',') OVER (PARTITION BY g) AS l FROM a;"}
		case 45:
			// ties without a tie-breaker: the order of equal keys must not depend on the workers
			return []string{"SELECT id, g FROM a ORDER BY g;", "SELECT id, v FROM a ORDER BY v DESC LIMIT 7;", "SELECT id, RANK() OVER (PARTITION BY g ORDER BY v) AS rk, FIRST_VALUE(s) OVER (PARTITION BY g ORDER BY v) AS fv, LAST_VALUE(id) OVER (PARTITION BY g ORDER BY v) AS lv FROM a;"}
		case 46:
			// accumulation order: floats, and lists without an explicit order
			return []string{"SELECT g, SUM(v * 0.1), AVG(v / 3.0), SUM(FLOAT(id) / 7) FROM a GROUP BY g;", "SELECT SUM(v * 0.1), AVG(id / 3.0) FROM a;", "SELECT g, LISTAGG(s, ','), JSON_AGG(id) FROM a GROUP BY g;", "SELECT id, SUM(v * 0.1) OVER (PARTITION BY g) AS fs, LISTAGG(s, '') OVER (PARTITION BY g) AS ls FROM a;"}
		case 47:
			// de-duplication across chunk boundaries, first occurrence kept
			return []string{"SELECT g, v % 2 FROM a UNION SELECT g, w % 2 FROM b;", "SELECT g, s FROM a EXCEPT SELECT g, 'cat' FROM b;", "SELECT g FROM a INTERSECT SELECT g FROM b;", "SELECT DISTINCT s, g FROM a;", "SELECT g, s FROM a EXCEPT ALL SELECT g, s FROM a WHERE id % 2 = 0;"}
		case 48:
			// duplicate join keys: the order of the matches
			return []string{"SELECT a.id, b.id FROM a JOIN b ON a.g = b.g;", "SELECT a.id, b.id FROM a LEFT JOIN b ON a.g = b.g AND b.w > 10;", "SELECT a.id, x.id FROM a JOIN a x ON a.g = x.g AND a.v = x.v;"}
		case 49:
			return []string{"INSERT INTO a SELECT id + 20000, g, v, s FROM a WHERE v IS NOT NULL;", "REPLACE INTO a (id, g, v, s) USING (id) SELECT id, g, v + 1, UPPER(s) FROM a WHERE id % 3 = 0;", "DELETE FROM a WHERE v IS NULL OR id % 11 = 5;", "SELECT * FROM a;"}
		case 43, 44:
			on := r.PickS("a.g = b.g", "a.g = b.g AND a.v > b.w", "a.id % 7 = b.id % 7")
			return []string{fmt.Sprintf("SELECT a.id, b.id FROM a FULL OUTER JOIN b ON %s;", on), fmt.Sprintf("SELECT COUNT(*) FROM a RIGHT OUTER JOIN b ON %s;", on)}
		case 39, 40:
			// built-in functions of every family evaluated by several workers
			return []string{fmt.Sprintf("SELECT id, %s FROM a;", exprList(r, r.Range(3, 7)))}
		case 41:
			return []string{fmt.Sprintf("SELECT id, %s FROM a WHERE REGEXP_MATCH(s, '^[a-d]') OR s LIKE '%%o%%' OR DATETIME_FORMAT(ADD_DAY(@d, id), '%%Y-%%m') > '2012-02' ORDER BY %s, id;", exprList(r, 2), c14Exprs[r.Intn(30)])}
		case 42:
			return []string{fmt.Sprintf("UPDATE a SET s = REGEXP_REPLACE(s, '[aeiou]', STRING(id %% 3)), v = IFNULL(v, 0) + LEN(s) WHERE %s;", genCond(r, "", G)), "SELECT * FROM a;"}
		case 27:
			// the columns a join condition names come first in SELECT *, in the order given
			dir := r.PickS("", "", "LEFT ", "RIGHT ", "FULL ")
			return []string{"SELECT id, w FROM a JOIN b USING (id, g);", "SELECT id, g, w FROM a NATURAL JOIN b;",
				fmt.Sprintf("SELECT * FROM a %sJOIN b USING (id, g);", dir), fmt.Sprintf("SELECT * FROM a NATURAL %sJOIN b;", dir),
				"SELECT * FROM a JOIN a x USING (s, g, id, v) WHERE id % 3 = 0;", "SELECT * FROM b NATURAL JOIN a ORDER BY id LIMIT 5;"}
		case 28:
			if !small && m.NB > 12 {
				continue
			}
			return []string{"SELECT a.id, t.w FROM a, LATERAL (SELECT MAX(w) AS w FROM b WHERE b.g = a.g) t;"}
		case 29:
			return []string{"SELECT id, SUM(v) OVER (PARTITION BY g ORDER BY id ROWS BETWEEN 1 PRECEDING AND CURRENT ROW) AS s1, AVG(v) OVER (PARTITION BY g ORDER BY id ROWS BETWEEN UNBOUNDED PRECEDING AND 1 FOLLOWING) AS a1 FROM a;"}
		case 30:
			return []string{"SELECT id, NTH_VALUE(v, 2) OVER (PARTITION BY g ORDER BY id) AS n2, NTILE(3) OVER (ORDER BY id) AS nt, DENSE_RANK() OVER (ORDER BY g) AS dr, CUME_DIST() OVER (ORDER BY v, id) AS cd, LEAD(s, 1, 'none') OVER (ORDER BY id) AS ld, PERCENT_RANK() OVER (PARTITION BY g ORDER BY id) AS pr FROM a;"}
		case 31:
			return []string{fmt.Sprintf("SELECT id FROM a ORDER BY v %% 3 DESC, s, id DESC LIMIT %d PERCENT;", 10+r.Intn(80)), "SELECT id, v FROM a ORDER BY v LIMIT 2 WITH TIES;"}
		case 32:
			return []string{"SELECT g, JSON_AGG(s), MEDIAN(DISTINCT v), VAR(v), STDEVP(v) FROM a GROUP BY g;"}
		case 33:
			return []string{"SELECT id FROM a WHERE v > ANY (SELECT w FROM b) OR v <= ALL (SELECT w FROM b WHERE w > 100);", "SELECT a.id FROM a WHERE (a.id, a.g) IN (SELECT id, g FROM b);"}
		case 34:
			if !small {
				continue
			}
			return []string{"SELECT id, (SELECT COUNT(*) FROM a a2 WHERE a2.g = a.g AND a2.id <= a.id) AS rnk FROM a;"}
		case 35:
			return []string{"SELECT id FROM a WHERE v IS NOT NULL INTERSECT SELECT id FROM b UNION ALL SELECT g FROM b EXCEPT SELECT 0;"}
		case 36:
			return []string{"DELETE FROM a WHERE id IN (SELECT id FROM b);", "UPDATE a SET s = s || '!' WHERE g = (SELECT MIN(g) FROM b);", "SELECT * FROM a;"}
		case 37:
			return []string{"CREATE TABLE made (id, total) AS SELECT g, SUM(v) FROM a GROUP BY g;", "SELECT * FROM made;", "INSERT INTO made SELECT id, w FROM b;"}
		case 38:
			return []string{"DECLARE tq VIEW AS SELECT id, g, v FROM a WHERE v IS NOT NULL;", "UPDATE tq SET v = v * 2 WHERE g > 0;", "SELECT g, SUM(v) FROM tq GROUP BY g;", "DISPOSE VIEW tq;"}
		case 0:
			return []string{fmt.Sprintf("SELECT id, g, v, s FROM a WHERE %s;", genCond(r, "", G))}
		case 1:
			return []string{"SELECT g, COUNT(*), SUM(v), MIN(s), MAX(v), AVG(v) FROM a GROUP BY g;"}
		case 2:
			return []string{"SELECT g, LISTAGG(s, '|') WITHIN GROUP (ORDER BY id), COUNT(DISTINCT v) FROM a GROUP BY g;"}
		case 3:
			return []string{"SELECT DISTINCT g, v % 3 FROM a;"}
		case 4:
			return []string{fmt.Sprintf("SELECT a.id, b.id, b.w FROM a INNER JOIN b ON a.g = b.g AND a.id < b.id WHERE %s;", genCond(r, "a", G))}
		case 5:
			dir := r.PickS("LEFT", "RIGHT", "FULL", "FULL")
			on := r.PickS("a.id = b.id", "a.g = b.g", "a.g = b.g AND a.v > b.w")
			return []string{fmt.Sprintf("SELECT a.id, a.v, b.id, b.w FROM a %s OUTER JOIN b ON %s;", dir, on)}
		case 6:
			op := r.PickS("UNION", "UNION ALL", "EXCEPT", "EXCEPT ALL", "INTERSECT", "INTERSECT ALL")
			return []string{fmt.Sprintf("SELECT id, g FROM a %s SELECT id, g FROM b;", op)}
		case 7:
			return []string{"SELECT id, g, ROW_NUMBER() OVER (PARTITION BY g ORDER BY v DESC, id) AS rn, SUM(v) OVER (PARTITION BY g ORDER BY id) AS rs, RANK() OVER (ORDER BY g) AS rk FROM a;"}
		case 8:
			return []string{fmt.Sprintf("SELECT id, v, s FROM a ORDER BY v DESC NULLS LAST, id LIMIT %d OFFSET %d;", 1+r.Intn(20), r.Intn(5))}
		case 9:
			return []string{"SELECT id, v FROM a WHERE v > (SELECT AVG(w) FROM b);"}
		case 10:
			return []string{fmt.Sprintf("SELECT id FROM a WHERE id IN (SELECT id FROM b WHERE w > %d);", r.Intn(20))}
		case 11:
			if !small && m.NB > 12 {
				continue
			}
			return []string{"SELECT id, g FROM a WHERE EXISTS (SELECT 1 FROM b WHERE b.g = a.g AND b.w > a.v);"}
		case 12:
			return []string{fmt.Sprintf("SELECT id, f(v, g) AS fv FROM a WHERE f(v, 1) > %d;", r.Intn(40))}
		case 13:
			return []string{"SELECT g, usum(v), usum(v, 100) FROM a GROUP BY g;"}
		case 14:
			return []string{"SELECT id, usum(v) OVER (PARTITION BY g ORDER BY id) AS us, usum(v, id) OVER (PARTITION BY g) AS us2, usum(v, 1000) OVER (PARTITION BY s ORDER BY id) AS us3, LAG(v) OVER (PARTITION BY g ORDER BY id) AS lg, FIRST_VALUE(s) OVER (PARTITION BY g ORDER BY id) AS fs FROM a;"}
		case 15:
			if !small {
				continue
			}
			return []string{"SELECT a.id, b.id FROM a CROSS JOIN b WHERE (a.id + b.id) % 3 = 0;"}
		case 16:
			return []string{fmt.Sprintf("SELECT g, COUNT(*) AS c, MEDIAN(v), STDEV(v) FROM a GROUP BY g HAVING COUNT(*) > %d;", r.Intn(3))}
		case 17:
			return []string{"SELECT id, CASE WHEN v IS NULL THEN 'none' WHEN v < 10 THEN LOWER(s) || '-lo' ELSE UPPER(s) || '-hi' END AS c, LEN(s), SUBSTR(s, 1, 2), COALESCE(v, -1) FROM a;"}
		case 18:
			return []string{"SELECT t.g, t.c FROM (SELECT g, COUNT(*) AS c FROM a GROUP BY g) t WHERE t.c > 1;"}
		case 19:
			return []string{fmt.Sprintf("WITH RECURSIVE n (i) AS (SELECT 1 UNION ALL SELECT i + 1 FROM n WHERE i < %d) SELECT n.i, COUNT(a.id) FROM n LEFT JOIN a ON a.g = n.i GROUP BY n.i;", 2+r.Intn(5))}
		case 20:
			return []string{fmt.Sprintf("UPDATE a SET v = v + 1 WHERE %s;", genCond(r, "", G)), "SELECT * FROM a;"}
		case 21:
			return []string{fmt.Sprintf("DELETE FROM a WHERE id %% %d = 0;", 3+r.Intn(5)), "SELECT COUNT(*), SUM(v) FROM a;"}
		case 22:
			return []string{"INSERT INTO a SELECT id + 10000, g, w, 'ins' FROM b;", "SELECT * FROM a;"}
		case 23:
			return []string{"REPLACE INTO a (id, g, v, s) USING (id) SELECT id, g, w, 'rep' FROM b;", "SELECT * FROM a;"}
		case 24:
			return []string{"UPDATE a SET v = b.w FROM a JOIN b ON a.id = b.id AND b.w > 25;", "SELECT id, v FROM a;"}
		case 25:
			return []string{"SELECT COUNT(*) OVER (PARTITION BY g) AS cnt, id FROM a;", "SELECT JSON_AGG(v) FROM a WHERE g = 0;"}
		default:
			return []string{"ALTER TABLE a ADD c DEFAULT v * 2;", "SELECT id, c FROM a;", fmt.Sprintf("ALTER TABLE a DROP c;")}
		}
	}
}

// genQueryScenario builds tables and a program. cpu and the split knob are
// set by the caller.
func genQueryScenario(prop string, seed uint64, tier string) (*Scenario, *qMeta) {
	r := Sub(seed, "qworkload")
	m := &qMeta{}
	m.Big = r.Bool(0.25)
	if m.Big {
		m.NA = r.Range(150, 700)
		if r.Bool(0.3) {
			m.NA = r.Pick(159, 160, 161, 239, 240, 241, 319, 320, 321, 639, 640, 641) // straddle 80*k
		}
		m.NB = r.Range(0, 30)
		if prop == "C13" && tier != "thorough" && m.NA > 330 {
			// under the race detector an evaluation over 700 rows (several --cpu values x schedules x
			// user-defined aggregates) takes minutes: the quick tier keeps to four workers' worth of rows
			m.NA = 160 + m.NA%170
		}
	} else {
		m.NA = r.Range(0, 24)
		m.NB = r.Range(0, 12)
	}
	m.Groups = r.Range(1, 6)
	sc := &Scenario{Prop: prop}
	sc.Files = []FileSpec{
		{Name: "a.csv", Content: genTableA(m.NA, m.Groups, r)},
		{Name: "b.csv", Content: genTableB(m.NB, m.NA, m.Groups, r)},
	}
	// a third of the scenarios keep table a in another format: the LTSV and JSON Lines
	// loaders convert their records on several goroutines, and COMMIT writes the format back
	if rf := Sub(seed, "q-format"); rf.Bool(0.33) && m.NA > 0 {
		ext, content := benignTableAs(sc.Files[0].Content, rf.PickS("tsv", "ltsv", "ltsv", "jsonl", "jsonl", "json"))
		sc.Files[0] = FileSpec{Name: "a" + ext, Content: content}
	}
	m.Prelude = strings.Split(udfPrelude, "\n")
	n := r.Range(3, 8)
	for i := 0; i < n; i++ {
		m.Stmts = append(m.Stmts, genQuery(r, m)...)
	}
	if r.Bool(0.7) {
		m.Stmts = append(m.Stmts, "COMMIT;")
	}
	sc.Procs = []ProcSpec{{CPU: 1, WaitTimeoutS: 10.0000001, RetryDelayNs: 10001009, Quiet: true, Format: "CSV", Flags: swarmFlags(Sub(seed, "q-flags"), 0.25)}}
	renderQuery(sc, m)
	if m.Big {
		sc.Knobs = Knobs{RowStride: r.Pick(16, 64, 256), Pool: "lifo", MinPerCore: r.Pick(0, 0, 20)}
	} else {
		sc.Knobs = Knobs{RowStride: r.Pick(1, 1, 2, 4), Pool: "lifo", MinPerCore: r.Pick(1, 2, 5)}
	}
	sc.MaxSteps = 3000000
	return sc, m
}

func renderQuery(sc *Scenario, m *qMeta) {
	all := append(append([]string{}, m.Prelude...), m.Stmts...)
	sc.Procs[0].Program = strings.Join(all, "\n")
	if sc.Meta == nil {
		sc.Meta = map[string]string{}
	}
	sc.Meta["workload"] = mustJSON(m)
}

// queryShrinks: drop statements, halve the tables.
func queryShrinks(c *Case) []*Case {
	var meta qMeta
	mustUnJSON(c.Scenario.Meta["workload"], &meta)
	var out []*Case
	for i := len(meta.Stmts) - 1; i >= 0; i-- {
		if len(meta.Stmts) < 2 {
			break
		}
		cand := cloneCase(c)
		var m qMeta
		mustUnJSON(cand.Scenario.Meta["workload"], &m)
		m.Stmts = append(m.Stmts[:i:i], m.Stmts[i+1:]...)
		renderQuery(cand.Scenario, &m)
		out = append(out, cand)
	}
	for fi := range c.Scenario.Files {
		lines := strings.Split(strings.TrimRight(c.Scenario.Files[fi].Content, "\n"), "\n")
		if len(lines) > 3 {
			cand := cloneCase(c)
			keep := 1 + (len(lines)-1)/2
			cand.Scenario.Files[fi].Content = strings.Join(lines[:keep], "\n") + "\n"
			out = append(out, cand)
		}
	}
	return out
}
