package sim

import (
	"encoding/json"
	"fmt"
	"os"
	"sort"
	"strings"
	"testing"
	"time"
)

// A Case is one evaluation of a property: a scenario plus the scheduling
// decisions of each simulated run it consists of. It is the replay file.
type Case struct {
	Prop      string    `json:"property"`
	Tier      string    `json:"tier"`
	Seed      uint64    `json:"seed"` // run seed: everything below is a pure function of it and the code
	Scenario  *Scenario `json:"scenario"`
	Decisions [][]int   `json:"decisions"` // one vector per sub-run, in execution order
	// expected (filled when a violation is reported)
	Violation *Violation `json:"violation,omitempty"`
	LogHash   string     `json:"log_hash,omitempty"`
	Trace     []string   `json:"trace,omitempty"`
	Note      string     `json:"note,omitempty"`
}

// Outcome of evaluating a case.
type Outcome struct {
	Violations []Violation
	LogHash    string // over all sub-runs
	TraceHash  string
	Runs       int // simulated runs executed
	Stats      RunStats
	NonTrivial bool
	Trace      []string
	Sample     interface{}
	RealProc   int      // real-process executions
	Infra      []string // trouble of the harness itself (never a property violation)
	Notes      []string // remarks for the log and the evidence file (not trouble)
}

func (o *Outcome) addStats(s RunStats) {
	o.Stats.Steps += s.Steps
	o.Stats.Switches += s.Switches
	o.Stats.TimeAdvances += s.TimeAdvances
	o.Stats.Goroutines += s.Goroutines
	o.Stats.SimTime += s.SimTime
	if s.MaxWorkers > o.Stats.MaxWorkers {
		o.Stats.MaxWorkers = s.MaxWorkers
	}
	for k, v := range s.Faults {
		if o.Stats.Faults == nil {
			o.Stats.Faults = map[string]int{}
		}
		o.Stats.Faults[k] += v
	}
	for k, v := range s.Probes {
		if o.Stats.Probes == nil {
			o.Stats.Probes = map[string]int{}
		}
		o.Stats.Probes[k] += v
	}
}

func (o *Outcome) viol(prop, clause, sig, detail string) {
	o.Violations = append(o.Violations, Violation{Prop: prop, Clause: clause, Sig: sig, Detail: detail})
}

// Checker is implemented once per property.
type Checker interface {
	Prop() string
	// Gen draws a scenario from the run seed.
	Gen(seed uint64, tier string) *Scenario
	// Eval executes the case. deciders yields the decider for sub-run i:
	// a recorder in exploration, a replayer when replaying.
	Eval(t *testing.T, c *Case, dec func(i int) *Decider) *Outcome
}

var registry = map[string]Checker{}

func Register(c Checker) { registry[c.Prop()] = c }

// EvalFresh evaluates run seed `seed` in record mode.
func EvalFresh(t *testing.T, ch Checker, seed uint64, tier string) (*Case, *Outcome) {
	c := &Case{Prop: ch.Prop(), Tier: tier, Seed: seed, Scenario: ch.Gen(seed, tier)}
	return c, EvalRecord(t, ch, c, seed)
}

// EvalRecord evaluates c with fresh scheduling decisions drawn from schedSeed.
func EvalRecord(t *testing.T, ch Checker, c *Case, schedSeed uint64) *Outcome {
	decs := map[int]*Decider{}
	maxIdx := -1
	o := ch.Eval(t, c, func(i int) *Decider {
		d := NewRecorder(hashLabel(schedSeed, fmt.Sprintf("dec%d", i)))
		decs[i] = d
		if i > maxIdx {
			maxIdx = i
		}
		return d
	})
	// decisions are stored under the index the checker asked for (a checker may
	// skip sub-runs)
	c.Decisions = make([][]int, maxIdx+1)
	for i, d := range decs {
		c.Decisions[i] = append([]int{}, d.Vec...)
	}
	for i := range c.Decisions {
		if c.Decisions[i] == nil {
			c.Decisions[i] = []int{}
		}
	}
	return o
}

// EvalReplay evaluates c with its recorded decisions.
func EvalReplay(t *testing.T, ch Checker, c *Case) *Outcome {
	return ch.Eval(t, c, func(i int) *Decider {
		if i < len(c.Decisions) {
			return NewReplayer(c.Decisions[i])
		}
		return NewReplayer(nil)
	})
}

func hasSig(o *Outcome, sig string) *Violation {
	for i := range o.Violations {
		if o.Violations[i].Sig == sig {
			return &o.Violations[i]
		}
	}
	return nil
}

// ---------------------------------------------------------------------------
// batch result, written as JSON for the driver

type BatchResult struct {
	Prop       string            `json:"property"`
	Tier       string            `json:"tier"`
	BatchSeed  uint64            `json:"batch_seed"`
	From, To   int               `json:"-"`
	Evals      int               `json:"evaluations"`
	Runs       int               `json:"sim_runs"`
	RealProc   int               `json:"real_process_runs"`
	NonTrivial int               `json:"nontrivial"`
	Hashes     []string          `json:"trace_hashes"` // of non-trivial evaluations
	Stats      RunStats          `json:"stats"`
	Violations []ViolationReport `json:"violations"`
	Samples    []interface{}     `json:"samples"`
	WallS      float64           `json:"wall_s"`
	Infra      []string          `json:"infra_errors"`
	Notes      []string          `json:"notes,omitempty"`
	DetChecked int               `json:"determinism_rechecks"`
	Race       bool              `json:"race_build"`
}

type ViolationReport struct {
	Seed      uint64    `json:"seed"`
	Index     int       `json:"index"`
	Violation Violation `json:"violation"`
	CaseFile  string    `json:"case_file"`
}

func writeJSON(path string, v interface{}) error {
	b, err := json.MarshalIndent(v, "", " ")
	if err != nil {
		return err
	}
	return os.WriteFile(path, b, 0644)
}

func readCase(path string) (*Case, error) {
	b, err := os.ReadFile(path)
	if err != nil {
		return nil, err
	}
	c := &Case{}
	if err := json.Unmarshal(b, c); err != nil {
		return nil, err
	}
	return c, nil
}

// RunBatch evaluates run indices [from,to) of the batch, until the wall-clock
// budget is used up. Every 16th evaluation is executed twice to re-check
// determinism of the simulator.
func RunBatch(t *testing.T, ch Checker, tier string, batchSeed uint64, from, to int, budget time.Duration, outDir string) *BatchResult {
	br := &BatchResult{Prop: ch.Prop(), Tier: tier, BatchSeed: batchSeed, Race: RaceBuild}
	start := time.Now()
	seen := map[string]bool{}
	sigSeen := map[string]int{}
	for i := from; i < to; i++ {
		if budget > 0 && time.Since(start) > budget {
			break
		}
		seed := RunSeed(batchSeed, i)
		KeepLogs, LastLogs = i%16 == 5, nil
		evalStart := time.Now()
		c, o := EvalFresh(t, ch, seed, tier)
		if d := time.Since(evalStart); d > 20*time.Second && len(br.Notes) < 20 {
			br.Notes = append(br.Notes, fmt.Sprintf("seed %d: slow evaluation (%.0f s wall)", seed, d.Seconds()))
		}
		logsA := LastLogs
		LastLogs = nil
		br.Evals++
		br.Runs += o.Runs
		br.RealProc += o.RealProc
		br.Stats.Steps += 0
		aggregate(&br.Stats, o.Stats)
		for _, x := range o.Notes {
			if len(br.Notes) < 20 {
				br.Notes = append(br.Notes, fmt.Sprintf("seed %d: %s", seed, x))
			}
		}
		for _, x := range o.Infra {
			br.Infra = append(br.Infra, fmt.Sprintf("seed %d: %s", seed, x))
		}
		if o.NonTrivial {
			if !seen[o.TraceHash] {
				seen[o.TraceHash] = true
				br.Hashes = append(br.Hashes, o.TraceHash)
			}
			br.NonTrivial++
		}
		if len(br.Samples) < 2 && o.Sample != nil && o.NonTrivial {
			br.Samples = append(br.Samples, o.Sample)
		}
		if i%16 == 5 || len(o.Violations) > 0 {
			// determinism re-check: same decisions must give the same log
			o2 := EvalReplay(t, ch, c)
			br.DetChecked++
			br.Runs += o2.Runs
			if o2.TraceHash != o.TraceHash {
				where := "(logs not kept)"
				if logsA != nil {
					where = firstLogDifference(logsA, LastLogs)
					dd := outDir
					if d := os.Getenv("VERIF_DIAG_DIR"); d != "" {
						dd = d
					}
					_ = writeJSON(fmt.Sprintf("%s/nondeterminism-%s-%d.json", dd, ch.Prop(), seed), map[string]interface{}{"case": c, "record": logsA, "replay": LastLogs})
				}
				br.Infra = append(br.Infra, fmt.Sprintf("seed %d: schedule trace differs between record and replay (%s vs %s): %s", seed, o.TraceHash, o2.TraceHash, where))
			} else if o2.LogHash != o.LogHash && ch.Prop() != "C12" && ch.Prop() != "C13" {
				// same schedule, different observable behaviour: csvq itself is
				// not a function of its inputs here; only C12 claims that, so
				// other checks report it as an infrastructure note
				br.Infra = append(br.Infra, fmt.Sprintf("seed %d: same schedule gave different outputs (%s vs %s)", seed, o.LogHash, o2.LogHash))
			}
		}
		if AbandonedRuns > 0 && len(o.Violations) == 0 {
			br.Infra = append(br.Infra, fmt.Sprintf("seed %d: a simulated run was abandoned by the real-time watchdog but the checker reported nothing", seed))
		}
		for _, v := range o.Violations {
			sigSeen[v.Sig]++
			if sigSeen[v.Sig] > 3 {
				continue // enough examples of this signature in this worker
			}
			cc := *c
			vv := v
			cc.Violation = &vv
			cc.LogHash = o.LogHash
			cc.Trace = o.Trace
			name := fmt.Sprintf("%s/cand-%s-%d-%d.json", outDir, ch.Prop(), seed, len(br.Violations))
			if err := writeJSON(name, &cc); err != nil {
				br.Infra = append(br.Infra, err.Error())
			}
			br.Violations = append(br.Violations, ViolationReport{Seed: seed, Index: i, Violation: v, CaseFile: name})
		}
		if AbandonedRuns > 0 {
			break // goroutines of the abandoned bubble are still around: end this worker's batch
		}
	}
	br.WallS = time.Since(start).Seconds()
	sort.Strings(br.Hashes)
	return br
}

func aggregate(dst *RunStats, s RunStats) {
	o := Outcome{Stats: *dst}
	o.addStats(s)
	*dst = o.Stats
}

func firstLine(s string) string {
	if i := strings.Index(s, "\n"); i >= 0 {
		return s[:i]
	}
	return s
}

// hookMissing reports whether the tree under test lacks one of the named
// event hooks (census taken by the driver at build time). Oracles that need
// the event are then switched off: silence of a removed hook is not evidence.
func hookMissing(names ...string) bool {
	m := os.Getenv("VERIF_MISSING_HOOKS")
	if m == "" {
		return false
	}
	for _, have := range strings.Split(m, ",") {
		for _, n := range names {
			if have == n {
				return true
			}
		}
	}
	return false
}

func firstLogDifference(a, b [][]string) string {
	for r := 0; r < len(a) && r < len(b); r++ {
		for i := 0; i < len(a[r]) || i < len(b[r]); i++ {
			la, lb := "<end>", "<end>"
			if i < len(a[r]) {
				la = a[r][i]
			}
			if i < len(b[r]) {
				lb = b[r][i]
			}
			if strings.HasPrefix(la, "ev ") || strings.HasPrefix(la, "done ") {
				continue
			}
			if la != lb {
				ctx := ""
				if i > 0 {
					ctx = a[r][i-1]
				}
				return fmt.Sprintf("sub-run %d line %d: %q vs %q (after %q)", r, i, la, lb, ctx)
			}
		}
	}
	return fmt.Sprintf("different number of sub-runs (%d vs %d) or only event lines differ", len(a), len(b))
}
