package sim

import (
	"bytes"
	"fmt"
	"os"
	"os/exec"
	"path/filepath"
	"regexp"
	"strings"
	"testing"
	"time"
)

// C12: results are a function of the inputs: independent of --cpu, scheduling
// and run.

type c12 struct{}

func init() { Register(c12{}) }

func (c12) Prop() string { return "C12" }

func (c12) Gen(seed uint64, tier string) *Scenario {
	sc, _ := genQueryScenario("C12", seed, tier)
	return sc
}

func (c12) Shrinks(c *Case) []*Case { return queryShrinks(c) }

type variant struct {
	CPU   int       `json:"cpu"`
	Sched SchedSpec `json:"sched"`
}

func genVariants(seed uint64, n int) []variant {
	r := Sub(seed, "variants")
	var vs []variant
	for i := 0; i < n; i++ {
		v := variant{CPU: r.Pick(2, 2, 3, 4, 5, 8, 11, 16)}
		v.Sched = GenSched(hashLabel(seed, fmt.Sprintf("v%d", i)), 1, 400)
		if v.Sched.Strategy == "delay" {
			v.Sched.Strategy = "pct" // one worker runs ahead of the others
			v.Sched.PCTPoints = []int{1 + r.Intn(300)}
		}
		vs = append(vs, v)
	}
	return vs
}

func withVariant(sc *Scenario, v variant) *Scenario {
	n := *sc
	n.Procs = append([]ProcSpec{}, sc.Procs...)
	n.Procs[0].CPU = v.CPU
	n.Sched = v.Sched
	return &n
}

var reErrPos = regexp.MustCompile(`^(exit=\d+ err=)(\[L:\d+ C:\d+\])?.*?( panic=.*)?$`)

// c12Norm reduces the error of a failed program to the position of the failing
// statement: when several rows of a statement fail, the row whose error is
// reported is the one whose worker fails first, and rows can fail with
// different texts (the offending token, "line 1, column 1" or only "column 1").
// That choice is not part of C12; that the program fails, with which exit
// code and at which statement, is.
func c12Norm(s string) string {
	i := strings.Index(s, "\n")
	if i < 0 {
		return s
	}
	first := s[:i]
	if m := reErrPos.FindStringSubmatch(first); m != nil && !strings.HasPrefix(first, "exit=0 ") {
		first = m[1] + m[2] + " (some row failed)" + m[3]
	}
	return first + s[i:]
}

func resultOf(res *RunResult) string {
	p := res.Procs[0]
	var b strings.Builder
	fmt.Fprintf(&b, "exit=%d err=%s panic=%s\n--stdout--\n%s\n--files--\n", p.ExitCode, firstLine(p.ErrText), p.Panic, p.Stdout)
	for _, n := range res.Final.Names() {
		fmt.Fprintf(&b, "%s:\n%s\n", n, res.Final[n].Data)
	}
	return b.String()
}

// firstDiff describes the first differing line of two multi-line strings.
func firstDiff(a, b string) string {
	la, lb := strings.Split(a, "\n"), strings.Split(b, "\n")
	for i := 0; i < len(la) || i < len(lb); i++ {
		var x, y string
		if i < len(la) {
			x = la[i]
		}
		if i < len(lb) {
			y = lb[i]
		}
		if x != y {
			ctx := ""
			if i > 0 {
				ctx = la[max(0, i-2)] + " / " + la[i-1]
			}
			return fmt.Sprintf("line %d: %q vs %q (after: %s); %d vs %d lines", i+1, x, y, ctx, len(la), len(lb))
		}
	}
	return "equal"
}

// stmtOfLine finds which statement's output contains output line idx: result
// sets are in statement order, so the statement kind is a stable signature.
func diffSig(sc *Scenario, ref, got string) string {
	// classify by the first keyword of the nearest preceding statement is not
	// recoverable from CSV output; use the kind of difference instead
	ra, ga := strings.Split(ref, "\n"), strings.Split(got, "\n")
	if len(ra) != len(ga) {
		return "row-count"
	}
	// same multiset of lines?
	cnt := map[string]int{}
	for _, l := range ra {
		cnt[l]++
	}
	for _, l := range ga {
		cnt[l]--
	}
	for _, v := range cnt {
		if v != 0 {
			return "values"
		}
	}
	return "row-order"
}

func (c12) Eval(t *testing.T, c *Case, dec func(int) *Decider) *Outcome {
	sc := c.Scenario
	o := &Outcome{}
	const prop = "C12"
	ref := withVariant(sc, variant{CPU: 1, Sched: SchedSpec{Strategy: "uniform", Seed: 1}})
	resRef, _ := Execute(t, ref, dec(0))
	o.Runs++
	o.addStats(resRef.Stats)
	o.LogHash += resRef.LogHash
	if resRef.Hang != "" || resRef.BubbleErr != "" {
		o.viol(prop, "termination", "hang", "reference run (--cpu 1) did not terminate: "+resRef.Hang+resRef.BubbleErr)
		return o
	}
	if resRef.LimitHit {
		// The step budget of the simulator ran out while the program was still making progress (a
		// user-defined aggregate over a running window of a 1 400-row partition is quadratic, and every
		// context poll of the statement loop is a scheduling point): nothing is known about this
		// scenario. Reported as a violation until a thorough run did so with a program that ends,
		// with equal results, under a larger budget - a false alarm (DESIGN 7, false alarms).
		o.Stats.probe("step-limit-inconclusive")
		return o
	}
	want := c12Norm(resultOf(resRef))
	if resRef.Procs[0].ExitCode != 0 {
		o.Stats.probe("reference-run-ended-with-error")
	} else {
		o.Stats.probe("reference-run-ok")
	}
	vs := genVariants(c.Seed, 2)
	var lastDec *Decider
	var lastRes *RunResult
	var lastSc *Scenario
	for i, v := range vs {
		vsc := withVariant(sc, v)
		d := dec(i + 1)
		res, _ := Execute(t, vsc, d)
		o.Runs++
		o.addStats(res.Stats)
		o.LogHash += res.LogHash
		o.TraceHash += res.TraceHash
		o.Trace = tail(res.Log, 200)
		if res.Stats.MaxWorkers >= 2 {
			o.NonTrivial = true
			o.Stats.probe("parallel-run")
		}
		if res.Stats.MaxWorkers >= 3 {
			o.Stats.probe("workers>=3")
		}
		if res.Hang != "" || res.BubbleErr != "" {
			o.viol(prop, "termination", "hang", fmt.Sprintf("run with --cpu %d did not terminate: hang=%q limit=%v bubble=%q", v.CPU, res.Hang, res.LimitHit, res.BubbleErr))
			continue
		}
		if res.LimitHit {
			o.Stats.probe("step-limit-inconclusive")
			continue
		}
		got := c12Norm(resultOf(res))
		if got != want {
			o.viol(prop, "cpu-and-schedule-independence", "differs-from-cpu1:"+diffSig(sc, want, got),
				fmt.Sprintf("--cpu %d (%s schedule) gives a different result than --cpu 1: %s", v.CPU, v.Sched.Strategy, firstDiff(want, got)))
		}
		lastDec, lastRes, lastSc = d, res, vsc
	}
	// the same run again, with identical scheduling decisions
	if lastRes != nil {
		res, _ := Execute(t, lastSc, NewReplayer(append([]int{}, lastDec.Vec...)))
		o.Runs++
		if res.TraceHash == lastRes.TraceHash {
			if a, b := c12Norm(resultOf(lastRes)), c12Norm(resultOf(res)); a != b {
				o.viol(prop, "run-independence", "differs-between-runs:"+diffSig(sc, a, b),
					fmt.Sprintf("two runs with the same --cpu and the same schedule give different results: %s", firstDiff(a, b)))
			} else {
				o.Stats.probe("repeat-identical")
			}
		} else {
			o.Stats.probe("repeat-schedule-diverged")
		}
	}
	// real-process tier: the real binary with free goroutine scheduling, --cpu 1 against
	// --cpu n (covers interleavings inside the evaluation of one row, which the simulated
	// schedules do not produce)
	if bin := os.Getenv("VERIF_CSVQ_BIN"); bin != "" && strings.Count(sc.Files[0].Content, "\n") > 165 && sc.Knobs.MinPerCore == 0 && Sub(c.Seed, "real").Bool(0.5) {
		ref, err1 := realQueryRun(bin, sc, 1)
		o.RealProc++
		if err1 != nil {
			o.Infra = append(o.Infra, "real-process tier: "+err1.Error())
		} else {
			for _, cpu := range []int{vs[0].CPU, 16} {
				for rep := 0; rep < 2; rep++ {
					got, err := realQueryRun(bin, sc, cpu)
					o.RealProc++
					if err != nil {
						o.Infra = append(o.Infra, "real-process tier: "+err.Error())
						break
					}
					if got != ref {
						o.viol(prop, "cpu-and-schedule-independence", "real-differs-from-cpu1:"+diffSig(sc, ref, got),
							fmt.Sprintf("REAL csvq process with --cpu %d (free scheduling) gives a different result than --cpu 1: %s", cpu, firstDiff(ref, got)))
						break
					}
					o.Stats.probe("real-cpuN-equals-cpu1")
				}
			}
		}
	}
	o.Sample = map[string]interface{}{"seed": c.Seed, "program": sc.Procs[0].Program, "rows_a": strings.Count(sc.Files[0].Content, "\n") - 1,
		"rows_b": strings.Count(sc.Files[1].Content, "\n") - 1, "variants": vs, "knobs": sc.Knobs, "reference_output_bytes": len(want)}
	return o
}

// realQueryRun runs the scenario's program in the real csvq binary on a fresh
// copy of the tables and returns stdout, exit status and the written files.
func realQueryRun(bin string, sc *Scenario, cpu int) (string, error) {
	setupBase()
	dir, err := os.MkdirTemp(BaseDir, "real12-")
	if err != nil {
		return "", err
	}
	defer os.RemoveAll(dir)
	if err := writeFiles(dir, sc.Files); err != nil {
		return "", err
	}
	cmd := exec.Command(bin, append(append([]string{"--repository", dir, "--quiet", "--cpu", fmt.Sprint(cpu), "--format", "CSV"}, cliFlagArgs(sc.Procs[0].Flags)...), sc.Procs[0].Program)...)
	cmd.Dir = filepath.Join(BaseDir, "cwd")
	var stdout, stderr bytes.Buffer
	cmd.Stdout, cmd.Stderr = &stdout, &stderr
	done := make(chan error, 1)
	if err := cmd.Start(); err != nil {
		return "", err
	}
	go func() { done <- cmd.Wait() }()
	select {
	case err := <-done:
		code := 0
		if ee, ok := err.(*exec.ExitError); ok {
			code = ee.ExitCode()
		} else if err != nil {
			return "", err
		}
		var b strings.Builder
		fmt.Fprintf(&b, "exit=%d err=%s\n--stdout--\n%s\n--files--\n", code, strings.ReplaceAll(firstLine(stderr.String()), dir, "$R"), stdout.String())
		st := SnapshotDir(dir)
		for _, n := range st.Names() {
			fmt.Fprintf(&b, "%s:\n%s\n", n, st[n].Data)
		}
		return c12Norm(b.String()), nil
	case <-time.After(120 * time.Second):
		_ = cmd.Process.Kill()
		return "", fmt.Errorf("the real binary did not finish within 120 s with --cpu %d", cpu)
	}
}
