package sim

import (
	"encoding/base64"
	"sort"
	"strings"
	"time"
)

// Bytes returns the content of the file.
func (f *FileSpec) Bytes() []byte {
	if f.B64 != "" {
		b, _ := base64.StdEncoding.DecodeString(f.B64)
		return b
	}
	return []byte(f.Content)
}

func (p *ProcSpec) StdinBytes() []byte {
	if p.StdinB64 != "" {
		b, _ := base64.StdEncoding.DecodeString(p.StdinB64)
		return b
	}
	return []byte(p.Stdin)
}

// Scenario is everything that defines a run apart from scheduling decisions.
type Scenario struct {
	Prop     string            `json:"prop"`
	Kind     string            `json:"kind,omitempty"` // generator-specific sub-kind
	Files    []FileSpec        `json:"files"`
	Procs    []ProcSpec        `json:"procs"`
	Knobs    Knobs             `json:"knobs"`
	Sched    SchedSpec         `json:"sched"`
	Cancels  []CancelSpec      `json:"cancels,omitempty"`
	Faults   []FaultSpec       `json:"faults,omitempty"`
	Torn     *TornSpec         `json:"torn,omitempty"`
	RmRepoAt int               `json:"rm_repo_at,omitempty"` // remove the repository directory when process 0 reaches this yield
	Mutate   *MutateSpec       `json:"mutate,omitempty"`     // another program (not csvq) keeps writing to a file while process 0 works
	MaxSteps int               `json:"max_steps,omitempty"`
	MaxSimS  int               `json:"max_sim_s,omitempty"`
	Meta     map[string]string `json:"meta,omitempty"`
}

// MutateSpec: a program that knows nothing of csvq's lock files (a logger, an
// editor, rsync) writes to a table while csvq reads it. Mode "touch" sets a new
// modification time at every Every-th yield of process 0 (the bytes stay);
// mode "append" adds Line to the file at every Every-th yield of process 0
// inside a loader ("load.*" points), at most Max times.
type MutateSpec struct {
	File  string `json:"file"`
	Mode  string `json:"mode"`
	Every int    `json:"every"`
	Max   int    `json:"max,omitempty"`
	Line  string `json:"line,omitempty"`
}

func (s *Scenario) maxSimTime() time.Duration {
	if s.MaxSimS > 0 {
		return time.Duration(s.MaxSimS) * time.Second
	}
	return 15 * time.Minute
}

type FileSpec struct {
	Name    string `json:"name"`
	Content string `json:"content"`
	B64     string `json:"b64,omitempty"` // binary content (takes precedence)
	Dir     bool   `json:"dir,omitempty"`
	LinkTo  string `json:"link_to,omitempty"` // the file is a symbolic link to this path (relative to the run directory)
	HardTo  string `json:"hard_to,omitempty"` // the file is a second name (hard link) of this file, which stands earlier in the list
	Mode    uint32 `json:"mode,omitempty"`
}

type ProcSpec struct {
	Program       string            `json:"program"`
	Statements    []string          `json:"statements,omitempty"` // shell mode: one Execute per entry
	Repeats       []int             `json:"repeats,omitempty"`    // shell mode: execute entry i this many times (same syntax tree); default 1
	CPU           int               `json:"cpu"`
	WaitTimeoutS  float64           `json:"wait_timeout_s"`
	RetryDelayNs  int64             `json:"retry_delay_ns"`
	Stdin         string            `json:"stdin,omitempty"`
	StdinB64      string            `json:"stdin_b64,omitempty"`
	HasStdin      bool              `json:"has_stdin,omitempty"`
	StdinChunk    int               `json:"stdin_chunk,omitempty"`   // >0: reads return at most this many bytes
	StdinFailAt   int               `json:"stdin_fail_at,omitempty"` // >0: error after this many bytes
	StdinEOFAt    int               `json:"stdin_eof_at,omitempty"`  // >0: EOF after this many bytes
	OutFile       string            `json:"out_file,omitempty"`
	StdoutFailAt  int               `json:"stdout_fail_at,omitempty"`  // n-th write to standard output fails (ENOSPC)
	StdoutFailAll bool              `json:"stdout_fail_all,omitempty"` // and all later ones
	Format        string            `json:"format,omitempty"`          // export format flag
	Flags         map[string]string `json:"flags,omitempty"`           // extra SET @@FLAG values applied through Tx.SetFlag
	Quiet         bool              `json:"quiet"`
	Shell         bool              `json:"shell,omitempty"`
}

type Knobs struct {
	MinPerCore int    `json:"min_per_core"` // 0 = default (80)
	RowStride  int    `json:"row_stride"`   // park at every n-th row-level yield
	Pool       string `json:"pool"`         // lifo | fresh | random | poison | real
	PoolSeed   uint64 `json:"pool_seed"`
	FreeRun    bool   `json:"free_run,omitempty"` // no controller: every yield returns at once (race detector pass)
	RelRepo    bool   `json:"rel_repo,omitempty"` // no --repository: the run directory is the working directory of the (test) process and table paths are resolved relative to it
}

type SchedSpec struct {
	Strategy   string  `json:"strategy"` // uniform | sticky | pct | delay
	Sticky     float64 `json:"sticky,omitempty"`
	PTime      float64 `json:"p_time"`
	PCTDepth   int     `json:"pct_depth,omitempty"`
	PCTPoints  []int   `json:"pct_points,omitempty"`
	DelayProc  int     `json:"delay_proc,omitempty"`
	DelayPoint string  `json:"delay_point,omitempty"`
	DelaySteps int     `json:"delay_steps,omitempty"`
	Seed       uint64  `json:"seed"`
}

type CancelSpec struct {
	Proc    int  `json:"proc"`
	AtYield int  `json:"at_yield"`
	Stmt    bool `json:"stmt,omitempty"` // shell mode: cancel only the statement being executed
}

type FaultSpec struct {
	Proc       int    `json:"proc"`
	Point      string `json:"point"`
	Nth        int    `json:"nth"`
	Errno      string `json:"errno"`
	Persistent bool   `json:"persistent,omitempty"`
	Mode       string `json:"mode,omitempty"` // "" = the hook returns the error; "env" = a real file-system condition makes the real call fail
}

type TornSpec struct {
	Proc      int     `json:"proc"`
	NthWrite  int     `json:"nth_write"`
	All       bool    `json:"all,omitempty"`
	Frac      float64 `json:"frac"`
	FailErrno string  `json:"fail_errno,omitempty"`
}

// swarmFlags draws a random subset of csvq's session flags that change how
// tables are parsed, compared and written without changing what the generated
// programs mean (no NO_HEADER, no delimiter changes). Every oracle that
// compares runs uses the same flags on both sides.
func swarmFlags(r *Rng, p float64, outputParsed ...bool) map[string]string {
	parsed := len(outputParsed) > 0 && outputParsed[0] // the oracle reads result sets from standard output as plain CSV
	if !r.Bool(p) {
		return nil
	}
	f := map[string]string{}
	add := func(prob float64, name string, vals ...string) {
		if r.Bool(prob) {
			f[name] = vals[r.Intn(len(vals))]
		}
	}
	if !parsed {
		add(0.35, "STRIP_ENDING_LINE_BREAK", "true") // (also strips the line break after a printed result set)
	}
	add(0.3, "LINE_BREAK", "CRLF", "LF", "CR")
	add(0.25, "WITHOUT_NULL", "true")
	if !parsed {
		// (under strict equality REPLACE ... USING (id) does not match the integer 1 with
		// the string '1' of a CSV cell: the generated procedures would mean something else)
		add(0.2, "STRICT_EQUAL", "true")
	}
	if !parsed {
		add(0.2, "ENCLOSE_ALL", "true")
	}
	add(0.15, "ANSI_QUOTES", "true")
	add(0.15, "SCIENTIFIC_NOTATION", "true")
	add(0.15, "TIMEZONE", "UTC", "Asia/Tokyo", "America/Los_Angeles")
	add(0.1, "COUNT_DIACRITICAL_SIGN", "true")
	add(0.1, "EAST_ASIAN_ENCODING", "true")
	add(0.1, "JSON_ESCAPE", "HEX", "HEXALL", "BACKSLASH")
	add(0.1, "PRETTY_PRINT", "true")
	if len(f) == 0 {
		return nil
	}
	return f
}

// mergeFlags returns a ∪ b (b wins).
func mergeFlags(a, b map[string]string) map[string]string {
	if len(a) == 0 && len(b) == 0 {
		return nil
	}
	m := map[string]string{}
	for k, v := range a {
		m[k] = v
	}
	for k, v := range b {
		m[k] = v
	}
	return m
}

var flagToCLIAll = map[string]string{"IMPORT_FORMAT": "--import-format", "DELIMITER": "--delimiter", "ALLOW_UNEVEN_FIELDS": "--allow-uneven-fields",
	"DELIMITER_POSITIONS": "--delimiter-positions", "JSON_QUERY": "--json-query", "ENCODING": "--encoding", "NO_HEADER": "--no-header", "WITHOUT_NULL": "--without-null",
	"STRIP_ENDING_LINE_BREAK": "--strip-ending-line-break", "LINE_BREAK": "--line-break", "STRICT_EQUAL": "--strict-equal", "ENCLOSE_ALL": "--enclose-all",
	"ANSI_QUOTES": "--ansi-quotes", "SCIENTIFIC_NOTATION": "--scientific-notation", "TIMEZONE": "--timezone", "COUNT_DIACRITICAL_SIGN": "--count-diacritical-sign",
	"EAST_ASIAN_ENCODING": "--east-asian-encoding", "JSON_ESCAPE": "--json-escape", "PRETTY_PRINT": "--pretty-print"}

// cliFlagArgs spells a flag map as command line options of the real binary
// (sorted by name).
func cliFlagArgs(flags map[string]string) []string {
	var names, args []string
	for n := range flags {
		names = append(names, n)
	}
	sort.Strings(names)
	for _, n := range names {
		opt, ok := flagToCLIAll[n]
		if !ok {
			continue
		}
		switch v := flags[n]; v {
		case "true":
			args = append(args, opt)
		case "false":
		default:
			args = append(args, opt, v)
		}
	}
	return args
}

// avoidBareCR replaces LINE_BREAK CR by CRLF for scenarios that create tables or
// rewrite JSON / JSON Lines tables: csvq's readers cannot read back text that ends in
// a bare carriage return (go-text's CSV reader: "bufio: invalid use of UnreadRune")
// nor JSON Lines separated by CR, which is what it writes for such tables under
// --line-break CR. That is a limitation of reading (inputs with classic Mac line
// breaks), not of the commit protocol; tables that have their own line break keep
// it when they are rewritten, and for those CR stays in the mix.
func avoidBareCR(flags map[string]string, files []FileSpec, program string) {
	if flags["LINE_BREAK"] != "CR" {
		return
	}
	bad := strings.Contains(program, "CREATE TABLE")
	for _, f := range files {
		if strings.HasSuffix(f.Name, ".json") || strings.HasSuffix(f.Name, ".jsonl") {
			bad = true
		}
	}
	if bad {
		flags["LINE_BREAK"] = "CRLF"
	}
}
