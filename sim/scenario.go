package sim

import (
	"encoding/base64"
	"time"
)

// Bytes returns the content of the file.
func (f *FileSpec) Bytes() []byte {
	if f.B64 != "" {
		b, _ := base64.StdEncoding.DecodeString(f.B64)
		return b
	}
	return []byte(f.Content)
}

func (p *ProcSpec) StdinBytes() []byte {
	if p.StdinB64 != "" {
		b, _ := base64.StdEncoding.DecodeString(p.StdinB64)
		return b
	}
	return []byte(p.Stdin)
}

// Scenario is everything that defines a run apart from scheduling decisions.
type Scenario struct {
	Prop     string            `json:"prop"`
	Kind     string            `json:"kind,omitempty"` // generator-specific sub-kind
	Files    []FileSpec        `json:"files"`
	Procs    []ProcSpec        `json:"procs"`
	Knobs    Knobs             `json:"knobs"`
	Sched    SchedSpec         `json:"sched"`
	Cancels  []CancelSpec      `json:"cancels,omitempty"`
	Faults   []FaultSpec       `json:"faults,omitempty"`
	Torn     *TornSpec         `json:"torn,omitempty"`
	RmRepoAt int               `json:"rm_repo_at,omitempty"` // remove the repository directory when process 0 reaches this yield
	MaxSteps int               `json:"max_steps,omitempty"`
	MaxSimS  int               `json:"max_sim_s,omitempty"`
	Meta     map[string]string `json:"meta,omitempty"`
}

func (s *Scenario) maxSimTime() time.Duration {
	if s.MaxSimS > 0 {
		return time.Duration(s.MaxSimS) * time.Second
	}
	return 15 * time.Minute
}

type FileSpec struct {
	Name    string `json:"name"`
	Content string `json:"content"`
	B64     string `json:"b64,omitempty"` // binary content (takes precedence)
	Dir     bool   `json:"dir,omitempty"`
	LinkTo  string `json:"link_to,omitempty"` // the file is a symbolic link to this path (relative to the run directory)
	Mode    uint32 `json:"mode,omitempty"`
}

type ProcSpec struct {
	Program       string            `json:"program"`
	Statements    []string          `json:"statements,omitempty"` // shell mode: one Execute per entry
	Repeats       []int             `json:"repeats,omitempty"`    // shell mode: execute entry i this many times (same syntax tree); default 1
	CPU           int               `json:"cpu"`
	WaitTimeoutS  float64           `json:"wait_timeout_s"`
	RetryDelayNs  int64             `json:"retry_delay_ns"`
	Stdin         string            `json:"stdin,omitempty"`
	StdinB64      string            `json:"stdin_b64,omitempty"`
	HasStdin      bool              `json:"has_stdin,omitempty"`
	StdinChunk    int               `json:"stdin_chunk,omitempty"`   // >0: reads return at most this many bytes
	StdinFailAt   int               `json:"stdin_fail_at,omitempty"` // >0: error after this many bytes
	StdinEOFAt    int               `json:"stdin_eof_at,omitempty"`  // >0: EOF after this many bytes
	OutFile       string            `json:"out_file,omitempty"`
	StdoutFailAt  int               `json:"stdout_fail_at,omitempty"`  // n-th write to standard output fails (ENOSPC)
	StdoutFailAll bool              `json:"stdout_fail_all,omitempty"` // and all later ones
	Format        string            `json:"format,omitempty"`          // export format flag
	Flags         map[string]string `json:"flags,omitempty"`           // extra SET @@FLAG values applied through Tx.SetFlag
	Quiet         bool              `json:"quiet"`
	Shell         bool              `json:"shell,omitempty"`
}

type Knobs struct {
	MinPerCore int    `json:"min_per_core"` // 0 = default (80)
	RowStride  int    `json:"row_stride"`   // park at every n-th row-level yield
	Pool       string `json:"pool"`         // lifo | fresh | random | poison | real
	PoolSeed   uint64 `json:"pool_seed"`
	FreeRun    bool   `json:"free_run,omitempty"` // no controller: every yield returns at once (race detector pass)
	RelRepo    bool   `json:"rel_repo,omitempty"` // no --repository: the run directory is the working directory of the (test) process and table paths are resolved relative to it
}

type SchedSpec struct {
	Strategy   string  `json:"strategy"` // uniform | sticky | pct | delay
	Sticky     float64 `json:"sticky,omitempty"`
	PTime      float64 `json:"p_time"`
	PCTDepth   int     `json:"pct_depth,omitempty"`
	PCTPoints  []int   `json:"pct_points,omitempty"`
	DelayProc  int     `json:"delay_proc,omitempty"`
	DelayPoint string  `json:"delay_point,omitempty"`
	DelaySteps int     `json:"delay_steps,omitempty"`
	Seed       uint64  `json:"seed"`
}

type CancelSpec struct {
	Proc    int  `json:"proc"`
	AtYield int  `json:"at_yield"`
	Stmt    bool `json:"stmt,omitempty"` // shell mode: cancel only the statement being executed
}

type FaultSpec struct {
	Proc       int    `json:"proc"`
	Point      string `json:"point"`
	Nth        int    `json:"nth"`
	Errno      string `json:"errno"`
	Persistent bool   `json:"persistent,omitempty"`
	Mode       string `json:"mode,omitempty"` // "" = the hook returns the error; "env" = a real file-system condition makes the real call fail
}

type TornSpec struct {
	Proc      int     `json:"proc"`
	NthWrite  int     `json:"nth_write"`
	All       bool    `json:"all,omitempty"`
	Frac      float64 `json:"frac"`
	FailErrno string  `json:"fail_errno,omitempty"`
}
