package sim

// splitmix64: the only source of randomness in the simulator. Every stream is
// derived from the run seed and a label so that shrinking one aspect of a run
// does not perturb the others.
type Rng struct{ s uint64 }

func NewRng(seed uint64) *Rng { return &Rng{s: seed} }

func (r *Rng) Uint64() uint64 {
	r.s += 0x9e3779b97f4a7c15
	z := r.s
	z = (z ^ (z >> 30)) * 0xbf58476d1ce4e5b9
	z = (z ^ (z >> 27)) * 0x94d049bb133111eb
	return z ^ (z >> 31)
}

// Intn returns a value in [0,n); n<=0 gives 0.
func (r *Rng) Intn(n int) int {
	if n <= 1 {
		return 0
	}
	return int(r.Uint64() % uint64(n))
}

func (r *Rng) Float() float64 { return float64(r.Uint64()>>11) / float64(1<<53) }

func (r *Rng) Bool(p float64) bool { return r.Float() < p }

func (r *Rng) Pick(xs ...int) int { return xs[r.Intn(len(xs))] }

func (r *Rng) PickS(xs ...string) string { return xs[r.Intn(len(xs))] }

// Range returns a value in [lo,hi].
func (r *Rng) Range(lo, hi int) int {
	if hi <= lo {
		return lo
	}
	return lo + r.Intn(hi-lo+1)
}

func hashLabel(seed uint64, label string) uint64 {
	h := seed ^ 0xcbf29ce484222325
	for i := 0; i < len(label); i++ {
		h ^= uint64(label[i])
		h *= 0x100000001b3
	}
	r := Rng{s: h}
	return r.Uint64()
}

// Sub derives an independent stream.
func Sub(seed uint64, label string) *Rng { return NewRng(hashLabel(seed, label)) }

// RunSeed derives the seed of run i of a batch.
func RunSeed(batch uint64, i int) uint64 {
	r := Rng{s: batch ^ (uint64(i)+1)*0xd6e8feb86659fd93}
	return r.Uint64() >> 1 // keep it positive as int64 for JSON consumers
}

// Perm returns a permutation of 0..n-1 (Fisher-Yates).
func (r *Rng) Perm(n int) []int {
	p := make([]int, n)
	for i := range p {
		p[i] = i
	}
	for i := n - 1; i > 0; i-- {
		j := r.Intn(i + 1)
		p[i], p[j] = p[j], p[i]
	}
	return p
}
