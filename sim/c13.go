package sim

import (
	"fmt"
	"os"
	"path/filepath"
	"sort"
	"strings"
	"testing"
)

// C13: parallel query evaluation and loading are free of data races.
//
// The C12 workload (plus failing and cancelled statements, all text formats,
// tables above the loader's 300-row regrow threshold) runs in a binary built
// with -race. Scheduling is still decided by the controller; parking and
// releasing are bracketed by runtime.RaceDisable/RaceEnable so that the
// scheduler's own channels add no happens-before edges. A third, free-running
// pass (no controller, real sync.Pool) covers code between yields.

type c13 struct{}

func init() { Register(c13{}) }

func (c13) Prop() string { return "C13" }

func (c13) Gen(seed uint64, tier string) *Scenario {
	sc, m := genQueryScenario("C13", seed, tier)
	r := Sub(seed, "c13")
	// other formats for table b, bigger table a now and then
	switch r.Intn(5) {
	case 0:
		sc.Files = append(sc.Files, FileSpec{Name: "j.jsonl", Content: genTableContent("jsonl", r.Range(1, 400), r)})
		m.Stmts = append([]string{"SELECT COUNT(*), SUM(n) FROM `j.jsonl`;"}, m.Stmts...)
	case 1:
		sc.Files = append(sc.Files, FileSpec{Name: "l.ltsv", Content: genTableContent("ltsv", r.Range(1, 400), r)})
		m.Stmts = append([]string{"SELECT COUNT(*), SUM(n) FROM `l.ltsv`;"}, m.Stmts...)
	case 2:
		sc.Files = append(sc.Files, FileSpec{Name: "t.tsv", Content: genTableContent("tsv", r.Range(1, 400), r)})
		m.Stmts = append([]string{"SELECT COUNT(*), SUM(n) FROM `t.tsv` WHERE id > 3;"}, m.Stmts...)
	}
	// a statement that fails in the middle of a parallel evaluation
	if r.Bool(0.35) {
		k := 1 + r.Intn(m.NA+1)
		bad := []string{
			fmt.Sprintf("SELECT id, 100 / (id - %d) FROM a;", k),
			fmt.Sprintf("SELECT g, COUNT(*) FROM a GROUP BY g, 10 / (id - %d);", k),
			fmt.Sprintf("SELECT a.id FROM a JOIN b ON 5 / (a.id - %d) > b.w;", k),
			fmt.Sprintf("UPDATE a SET v = 7 / (id - %d);", k),
			fmt.Sprintf("SELECT id, SUM(10 / (id - %d)) OVER (PARTITION BY g) FROM a;", k),
		}
		at := r.Intn(len(m.Stmts) + 1)
		m.Stmts = append(m.Stmts[:at:at], append([]string{bad[r.Intn(len(bad))]}, m.Stmts[at:]...)...)
	}
	// functions with process-wide state, called from every worker (their values
	// are printed but never decide how many rows or workers follow)
	if r.Bool(0.25) {
		m.Stmts = append(m.Stmts, r.PickS("SELECT id, RAND() + RAND(1, 6) FROM a WHERE id > 0;", "SELECT id, RAND(), RAND(1, 100) FROM a;", // only in the select list: a random filter would make the number of workers of the next operator random

			"SELECT id, NOW(), UUID() FROM a WHERE id > 0;", "SELECT id, REGEXP_MATCH(s, '^[a-' || STRING(id % 5) || ']'), DATETIME_FORMAT(NOW(), '%Y') FROM a;",
			"SELECT id, JSON_VALUE('k' || STRING(id % 7), '{\"k0\":1,\"k1\":{\"x\":2},\"k2\":[3]}'), JSON_OBJECT(id, s) FROM a;",
			"SELECT id, DATETIME_FORMAT(@d, '%Y-%m-' || STRING(id % 9)), DATETIME(STRING(2000 + id % 30) || '-01-02 03:04:05'), ADD_DAY(@d, id) FROM a;",
			"SELECT id, REGEXP_REPLACE(s, '[' || STRING(id % 3) || 'a-c]', '_'), REGEXP_FIND(s, '[a-z]+' || STRING(id % 4) || '?'), s LIKE '%' || STRING(id % 3) || '%' FROM a;"))
	}
	// per-row evaluation that reaches objects of the session shared by all workers: a cursor fetched by a
	// function, a variable assigned in the select list, a temporary table a function inserts into
	if r.Bool(0.2) {
		m.Stmts = append(m.Stmts, r.PickS(
			"DECLARE wc CURSOR FOR SELECT id FROM b; OPEN wc; DECLARE wfetch FUNCTION (@x) AS BEGIN VAR @c; FETCH wc INTO @c; RETURN @x; END; SELECT COUNT(wfetch(id)) FROM a; SELECT CURSOR wc IS IN RANGE, CURSOR wc COUNT; CLOSE wc; DISPOSE CURSOR wc; DISPOSE FUNCTION wfetch;",
			"VAR @cnt := 0; SELECT COUNT(@cnt := @cnt + 1) FROM a; DISPOSE @cnt;",
			"DECLARE wv VIEW (k); DECLARE wins FUNCTION (@x) AS BEGIN INSERT INTO wv VALUES (@x); RETURN @x; END; SELECT COUNT(wins(id)) FROM a WHERE id % 7 = 0; SELECT COUNT(*) FROM wv; DISPOSE FUNCTION wins; DISPOSE VIEW wv;"))
	}
	cancelled := r.Bool(0.3)
	if cancelled {
		// programs that are cancelled end with statements whose evaluation has several
		// parallel phases (both operands of a set operator, key generation, merging):
		// an interruption is the only way most of these phases can fail
		for i, n := 0, r.Range(1, 3); i < n; i++ {
			m.Stmts = append(m.Stmts, r.PickS("SELECT g, s FROM a EXCEPT SELECT g, 'cat' FROM b;", "SELECT id, g FROM a INTERSECT SELECT id, g FROM b;", "SELECT g, v FROM a EXCEPT ALL SELECT g, w FROM b;",
				"SELECT g FROM a INTERSECT ALL SELECT g FROM b;", "SELECT id, s FROM a UNION SELECT id, STRING(w) FROM b;", "SELECT DISTINCT g, s FROM a;", "SELECT a.id, b.id FROM a FULL OUTER JOIN b ON a.g = b.g;",
				"SELECT g, COUNT(*), LISTAGG(s, ',') WITHIN GROUP (ORDER BY id) FROM a GROUP BY g;", "SELECT id FROM a WHERE v IS NOT NULL INTERSECT SELECT id FROM b UNION ALL SELECT g FROM b EXCEPT SELECT 0;"))
		}
	}
	renderQuery(sc, m)
	if cancelled {
		sc.Cancels = []CancelSpec{{Proc: 0, AtYield: 1 + r.Intn(400)}} // (the position is re-drawn per run from the program's real length)
	}
	// the simulated allocator serialises its callers through a mutex, which the race
	// detector would take for synchronisation between workers: use csvq's own sync.Pool
	sc.Knobs.Pool = "real"
	return sc
}

func (c13) Shrinks(c *Case) []*Case { return queryShrinks(c) }

type raceReport struct {
	Sig     string
	Text    string
	Harness bool
}

var raceOffsets = map[string]int64{}

// readRaceReports returns the reports written by the race detector of this
// process since the last call.
func readRaceReports() []raceReport {
	base := os.Getenv("VERIF_RACE_LOG")
	if base == "" {
		return nil
	}
	files, _ := filepath.Glob(fmt.Sprintf("%s.%d", base, os.Getpid()))
	var out []raceReport
	for _, f := range files {
		b, err := os.ReadFile(f)
		if err != nil {
			continue
		}
		off := raceOffsets[f]
		if int64(len(b)) <= off {
			continue
		}
		txt := string(b[off:])
		raceOffsets[f] = int64(len(b))
		for _, blk := range strings.Split(txt, "==================") {
			if !strings.Contains(blk, "WARNING: DATA RACE") {
				continue
			}
			out = append(out, parseRace(blk))
		}
	}
	return out
}

func parseRace(blk string) raceReport {
	body := strings.Replace(strings.TrimSpace(blk), "WARNING: DATA RACE\n", "", 1)
	secs := strings.Split(body, "\n\n")
	var tops []string
	harness := false
	for _, s := range secs {
		first := firstLine(strings.TrimSpace(s))
		lw := strings.ToLower(first)
		if !(strings.Contains(lw, "read at") || strings.Contains(lw, "write at")) {
			continue
		}
		lines := strings.Split(s, "\n")
		top := ""
		for i := 1; i < len(lines); i++ {
			l := strings.TrimSpace(lines[i])
			if strings.HasPrefix(l, "github.com/mithrandie/csvq/") {
				fn := strings.TrimPrefix(l, "github.com/mithrandie/csvq/")
				if j := strings.Index(fn, "("); j > 0 && strings.HasSuffix(fn, ")") {
					fn = fn[:strings.LastIndex(fn, "(")]
				}
				file := ""
				if i+1 < len(lines) {
					file = strings.TrimSpace(lines[i+1])
					if j := strings.Index(file, " "); j > 0 {
						file = file[:j]
					}
					file = filepath.Base(file)
					if j := strings.Index(file, ":"); j > 0 {
						file = file[:j] // line numbers shift with edits; function + file is the identity
					}
				}
				top = fn + "@" + file
				break
			}
			if strings.HasPrefix(l, "verif/sim.") && !strings.Contains(l, "procMain") {
				harness = true
				break
			}
		}
		tops = append(tops, top)
	}
	sort.Strings(tops)
	return raceReport{Sig: "race:" + strings.Join(tops, "<->"), Text: strings.TrimSpace(blk), Harness: harness || len(tops) < 2 || tops[0] == ""}
}

func (c13) Eval(t *testing.T, c *Case, dec func(int) *Decider) *Outcome {
	sc := c.Scenario
	o := &Outcome{}
	const prop = "C13"
	_ = readRaceReports() // anything left over from before this evaluation
	vs := genVariants(c.Seed, 2)
	check := func(label string) {
		for _, rr := range readRaceReports() {
			if rr.Harness {
				// a race inside the simulator is infrastructure trouble (exit 2), never a
				// statement about csvq
				o.Infra = append(o.Infra, "race report without two csvq stacks (harness trouble):\n"+rr.Text)
				continue
			}
			o.viol(prop, "data-race", rr.Sig, fmt.Sprintf("data race during %s:\n%s", label, rr.Text))
		}
	}
	if len(sc.Cancels) > 0 {
		// the first run is not cancelled and tells how many scheduling points the program
		// has; the cancellations of the following runs are spread over all of them (a
		// fixed range would never reach the later statements of a long program)
		vs = append(vs, genVariants(hashLabel(c.Seed, "more"), 2)...)
	}
	yields := 0
	for i, v := range vs {
		vsc := withVariant(sc, v)
		if len(sc.Cancels) > 0 {
			if i == 0 {
				vsc.Cancels = nil
			} else if yields > 0 {
				rc := Sub(c.Seed, fmt.Sprintf("cancel-at-%d", i))
				at := 1 + rc.Intn(yields)
				if i >= 2 {
					at = yields - rc.Intn(1+yields/3) // the last third: the statements appended for this purpose
				}
				vsc.Cancels = []CancelSpec{{Proc: 0, AtYield: max(1, at)}}
			}
		}
		res, _ := Execute(t, vsc, dec(i))
		if i == 0 && len(res.ProcYields) > 0 {
			yields = res.ProcYields[0]
		}
		o.Runs++
		o.addStats(res.Stats)
		o.LogHash += res.TraceHash // outputs may legitimately differ after an injected cancel; the schedule is what must replay
		o.TraceHash += res.TraceHash
		o.Trace = tail(res.Log, 200)
		if res.Stats.MaxWorkers >= 2 {
			o.NonTrivial = true
			o.Stats.probe("parallel-run")
		}
		if res.Procs[0].ExitCode != 0 {
			o.Stats.probe("failing-or-cancelled-run")
		}
		if res.Hang != "" || res.BubbleErr != "" {
			o.viol(prop, "termination", "hang", fmt.Sprintf("run with --cpu %d did not terminate: %s %s", v.CPU, res.Hang, res.BubbleErr))
		}
		check(fmt.Sprintf("the run with --cpu %d under the %s schedule", v.CPU, v.Sched.Strategy))
	}
	// free-running pass: no controller, real sync.Pool
	fr := withVariant(sc, variant{CPU: vs[0].CPU, Sched: SchedSpec{Strategy: "uniform", Seed: 3}})
	fr.Knobs.FreeRun = true
	fr.Knobs.Pool = "real"
	fr.Cancels = nil
	res, _ := Execute(t, fr, NewReplayer(nil))
	o.Runs++
	o.Stats.probe("free-running-pass")
	_ = res
	check(fmt.Sprintf("the free-running pass with --cpu %d (schedule not pinned)", vs[0].CPU))
	o.Sample = map[string]interface{}{"seed": c.Seed, "program": sc.Procs[0].Program, "variants": vs, "cancels": sc.Cancels, "race_build": RaceBuild}
	return o
}
