package sim

// getg returns the address of the running goroutine's runtime descriptor. It
// is only used as a cheap identity (runtime.Stack walks the whole stack and
// dominated the cost of a yield); descriptors are recycled by the runtime, so
// goroutine start points additionally report the real goroutine id.
func getg() uintptr
