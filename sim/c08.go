package sim

import (
	"fmt"
	"path/filepath"
	"regexp"
	"sort"
	"strings"
	"testing"
)

// C08: a statement that fails leaves every table exactly as it was before it ran.
//
// One process is driven like the interactive shell (one Execute per statement,
// AutoCommit off, an error does not end the session). Every data-changing
// statement is bracketed by dumps of all tables taken through the same
// processor. Statements are made to fail at the first, a middle or the last
// row through data-dependent expressions, or by cancelling the statement's
// own context at a seeded yield.

type c08Step struct {
	Kind   string   `json:"kind"` // dump | stmt | probe
	Src    string   `json:"src"`
	Tables []string `json:"tables,omitempty"` // dump: tables it prints; probe: table that must not exist
	Fails  bool     `json:"fails,omitempty"`  // stmt: expected to fail by construction
}

type c08Meta struct {
	Steps    []c08Step `json:"steps"`
	Rows     int       `json:"rows"`
	Injected bool      `json:"injected"`
	Final    []string  `json:"final"`              // file tables that must exist after the final COMMIT
	Files    []string  `json:"files,omitempty"`    // file names of t0 and t1 (the extension is the format)
	Fixed    bool      `json:"fixed,omitempty"`    // a fixed-length table takes part (--import-format FIXED)
	Reformat []string  `json:"reformat,omitempty"` // tables whose format attributes the session changes
}

type c08gen struct {
	reformatted map[string]bool
	r           *Rng
	steps       []c08Step
	tables      []string
	rows        int
	uniq        int
	nfail       int
	added       map[string]bool // table has the extra column x
}

func (g *c08gen) dump() {
	var b []string
	ts := append([]string{}, g.tables...)
	sort.Strings(ts)
	for _, t := range ts {
		b = append(b, fmt.Sprintf("ECHO '@T %s';", t), fmt.Sprintf("SELECT * FROM %s;", t))
	}
	g.steps = append(g.steps, c08Step{Kind: "dump", Src: strings.Join(b, " "), Tables: ts})
}

func (g *c08gen) table() string { return g.tables[g.r.Intn(len(g.tables))] }

func (g *c08gen) three(t string) bool { return t == "t0" || t == "t1" }

func (g *c08gen) okStmt() string {
	t := g.table()
	g.uniq++
	if g.r.Bool(0.12) {
		// statements with several target tables: every target is published, or (when the statement is
		// interrupted between two of them) none
		o := "t1"
		if t == "t1" {
			o = "t0"
		}
		k := 1 + g.r.Intn(5)
		return g.r.PickS(
			fmt.Sprintf("UPDATE %s, %s SET %s.n = %s.n + 1, %s.n = %s.n + 2 FROM %s JOIN %s ON %s.id = %s.id;", t, o, t, t, o, o, t, o, t, o),
			fmt.Sprintf("DELETE %s, %s FROM %s JOIN %s ON %s.id = %s.id WHERE %s.id = %d;", t, o, t, o, t, o, t, k),
			fmt.Sprintf("UPDATE x, y SET x.n = y.n, y.n = x.n FROM %s x JOIN %s y ON x.id = y.id WHERE x.id <> %d;", t, o, k),
			fmt.Sprintf("DELETE x, y FROM %s x JOIN %s y ON x.id = y.id + %d;", t, o, k))
	}
	if g.r.Bool(0.18) {
		// statements that rebuild every record of the table (and that a cancellation can hit half way)
		if g.added == nil {
			g.added = map[string]bool{}
		}
		if g.added[t] {
			g.added[t] = false
			return fmt.Sprintf("ALTER TABLE %s DROP x;", t)
		}
		if g.r.Bool(0.3) {
			return fmt.Sprintf("ALTER TABLE %s RENAME n TO n;", t)
		}
		if g.three(t) && g.r.Bool(0.25) {
			return fmt.Sprintf("ALTER TABLE %s SET %s;", t, g.r.PickS("ENCLOSE_ALL TO TRUE", "LINE_BREAK TO CRLF", "ENCLOSE_ALL TO FALSE", "LINE_BREAK TO LF"))
		}
		if g.three(t) && g.r.Bool(0.25) {
			// attributes that change the format the file is written in (the file keeps its
			// name, so a fresh process would read it in the wrong format: such a table is
			// compared byte-wise with the session without the failed statements only)
			if g.reformatted == nil {
				g.reformatted = map[string]bool{}
			}
			g.reformatted[t] = true
			return fmt.Sprintf("ALTER TABLE %s SET %s;", t, g.r.PickS("FORMAT TO 'TSV'", "FORMAT TO 'LTSV'", "FORMAT TO 'JSON'", "FORMAT TO 'JSONL'", "FORMAT TO 'FIXED'", "DELIMITER TO ';'",
				"DELIMITER_POSITIONS TO '[10]'", "DELIMITER_POSITIONS TO '[5, 10, 30]'", "DELIMITER_POSITIONS TO 'S[10, 20]'", "DELIMITER_POSITIONS TO 'SPACES'", "ENCODING TO 'SJIS'", "ENCODING TO 'UTF16'",
				"HEADER TO FALSE", "JSON_ESCAPE TO 'HEX'", "PRETTY_PRINT TO TRUE", "FORMAT TO 'CSV'"))
		}
		g.added[t] = true
		return fmt.Sprintf("ALTER TABLE %s ADD x DEFAULT n * 2;", t)
	}
	if g.three(t) {
		switch g.r.Intn(4) {
		case 0:
			return fmt.Sprintf("INSERT INTO %s VALUES (%d, %d, 'ok');", t, 100+g.uniq, g.r.Intn(9))
		case 1:
			return fmt.Sprintf("UPDATE %s SET n = n + 1 WHERE id %% 2 = %d;", t, g.r.Intn(2))
		case 2:
			return fmt.Sprintf("DELETE FROM %s WHERE id = %d;", t, 1+g.r.Intn(5))
		default:
			return fmt.Sprintf("REPLACE INTO %s (id, n, s) USING (id) VALUES (%d, 9, 'r'), (%d, 8, 'r');", t, 1+g.r.Intn(4), 300+g.uniq)
		}
	}
	switch g.r.Intn(3) {
	case 0:
		return fmt.Sprintf("INSERT INTO %s VALUES (%d, %d);", t, 100+g.uniq, g.r.Intn(9))
	case 1:
		return fmt.Sprintf("UPDATE %s SET n = n + 1;", t)
	default:
		return fmt.Sprintf("DELETE FROM %s WHERE id = %d;", t, 1+g.r.Intn(3))
	}
}

// failStmt returns a statement that fails by construction, and the name of a
// table it must not leave behind ("" if none).
func (g *c08gen) failStmt() (string, string) {
	t := []string{"t0", "t1"}[g.r.Intn(2)]
	k := 1 + g.r.Intn(g.rows) // the row at which evaluation fails
	g.nfail++
	hasTv := false
	for _, n := range g.tables {
		if n == "tv" {
			hasTv = true
		}
	}
	if hasTv && g.r.Bool(0.3) {
		// the temporary table (id, n) with rows 1..3 (+ what was inserted since)
		kt := 2 + g.r.Intn(2)
		switch g.r.Intn(7) {
		case 0:
			return fmt.Sprintf("UPDATE tv SET n = 1000 / (id - %d);", kt), ""
		case 1:
			return fmt.Sprintf("UPDATE tv SET n = n + 1 WHERE 10 / (id - %d) > -100;", kt), ""
		case 2:
			return "INSERT INTO tv VALUES (71, 1), (72, 2), (73);", ""
		case 3:
			return fmt.Sprintf("DELETE FROM tv WHERE 10 / (id - %d) > -100;", kt), ""
		case 4:
			return "REPLACE INTO tv (id, n) USING (id) VALUES (1, 111), (2);", ""
		case 5:
			return fmt.Sprintf("REPLACE INTO tv (id, n) USING (id) SELECT id, 10 / (id - %d) FROM tv;", kt), ""
		default:
			return fmt.Sprintf("UPDATE tv SET n = 5, id = 10 / (id - %d);", kt), ""
		}
	}
	switch g.r.Intn(32) {
	case 28:
		return fmt.Sprintf("ALTER TABLE %s SET %s;", t, g.r.PickS("ENCODING TO 'NOSUCH'", "DELIMITER TO 'ab'", "FORMAT TO 'NOSUCH'", "LINE_BREAK TO 'XX'", "NO_SUCH_ATTR TO 1")), ""
	case 29:
		return fmt.Sprintf("ALTER TABLE %s SET DELIMITER_POSITIONS TO 'x';", t), ""
	case 26:
		// wrong row length in a row whose values come from cells of another table
		o := map[string]string{"t0": "t1", "t1": "t0"}[t]
		return fmt.Sprintf("INSERT INTO %s (id, n, s) VALUES (411, 1, 'a'), (412, (SELECT n FROM %s WHERE id = 1), (SELECT s FROM %s WHERE id = 2), 'extra');", t, o, o), ""
	case 27:
		o := map[string]string{"t0": "t1", "t1": "t0"}[t]
		return fmt.Sprintf("REPLACE INTO %s (id, n, s) USING (id) VALUES (1, (SELECT n FROM %s WHERE id = 2), (SELECT s FROM %s WHERE id = 1), (SELECT s FROM %s WHERE id = 2));", t, o, o, t), ""
	case 22:
		// multi-table DELETE: the first target is fine, a later one cannot be changed
		o := map[string]string{"t0": "t1", "t1": "t0"}[t]
		return fmt.Sprintf("DELETE %s, s FROM %s JOIN (SELECT id FROM %s) s ON %s.id = s.id;", t, t, o, t), ""
	case 23:
		o := map[string]string{"t0": "t1", "t1": "t0"}[t]
		return fmt.Sprintf("DELETE %s, nosuch FROM %s JOIN %s ON %s.id = %s.id;", t, t, o, t, o), ""
	case 24:
		if hasTv {
			return fmt.Sprintf("DELETE tv, s FROM tv JOIN (SELECT id FROM %s) s ON tv.id = s.id;", t), ""
		}
		o := map[string]string{"t0": "t1", "t1": "t0"}[t]
		return fmt.Sprintf("DELETE %s, %s, nosuch FROM %s JOIN %s ON %s.id = %s.id;", t, o, t, o, t, o), ""
	case 25:
		o := map[string]string{"t0": "t1", "t1": "t0"}[t]
		return fmt.Sprintf("UPDATE %s, s SET %s.n = %s.n + 7, s.id = 1 FROM %s JOIN (SELECT id FROM %s) s ON %s.id = s.id;", t, t, t, t, o, t), ""
	case 19:
		// the SELECT succeeds, the field list does not fit its result
		name := fmt.Sprintf("f%d", g.nfail)
		return fmt.Sprintf("CREATE TABLE %s (a, b) AS SELECT id FROM t0;", name), name
	case 20:
		name := fmt.Sprintf("f%d", g.nfail)
		return fmt.Sprintf("CREATE TABLE %s (a, a) AS SELECT id, n FROM t0;", name), name
	case 21:
		name := fmt.Sprintf("f%d", g.nfail)
		return fmt.Sprintf("CREATE TABLE %s (a, b, A);", name), name
	case 16:
		// multi-table UPDATE: the first listed table evaluates fine, the second fails at row k
		o := map[string]string{"t0": "t1", "t1": "t0"}[t]
		return fmt.Sprintf("UPDATE %s, %s SET %s.n = %s.n + 1000, %s.n = 10 / (%s.id - %d) FROM %s JOIN %s ON %s.id = %s.id;", t, o, t, t, o, o, k, t, o, t, o), ""
	case 17:
		o := map[string]string{"t0": "t1", "t1": "t0"}[t]
		return fmt.Sprintf("UPDATE %s, %s SET %s.s = 'multi', %s.n = %s.n FROM %s JOIN %s ON %s.id >= %s.id;", t, o, t, o, t, t, o, t, o), ""
	case 18:
		if hasTv {
			return fmt.Sprintf("UPDATE tv, %s SET tv.n = tv.n + 500, %s.n = 10 / (%s.id - %d) FROM tv JOIN %s ON tv.id = %s.id;", t, t, t, k, t, t), ""
		}
		return fmt.Sprintf("DELETE FROM %s WHERE id IN (SELECT 10 / (id - %d) FROM t0);", t, k), ""
	case 0:
		rows := []string{"(401, 1, 'a')", "(402, 2, 'b')", "(403, 3, 'c')"}
		rows[g.r.Intn(3)] = "(404, 4)"
		return fmt.Sprintf("INSERT INTO %s VALUES %s;", t, strings.Join(rows, ", ")), ""
	case 1:
		return fmt.Sprintf("INSERT INTO %s SELECT id + 500, 10 / (id - %d), s FROM t0;", t, k), ""
	case 2:
		return fmt.Sprintf("UPDATE %s SET n = 10 / (id - %d);", t, k), ""
	case 3:
		return fmt.Sprintf("UPDATE %s SET n = n + 1, s = 'touched' WHERE 10 / (id - %d) > -100;", t, k), ""
	case 4:
		return fmt.Sprintf("UPDATE %s SET no_such_column = 1;", t), ""
	case 5:
		return fmt.Sprintf("UPDATE %s SET n = (SELECT n FROM t0 WHERE id < 3) WHERE id > 0;", t), ""
	case 6:
		return fmt.Sprintf("DELETE FROM %s WHERE 10 / (id - %d) > -100;", t, k), ""
	case 7:
		return fmt.Sprintf("REPLACE INTO %s (id, n, s) USING (id) VALUES (1, 1, 'x'), (2, 2);", t), ""
	case 8:
		return fmt.Sprintf("REPLACE INTO %s (id, n, s) USING (id) SELECT id, 10 / (id - %d), 'rp' FROM t0;", t, k), ""
	case 9:
		name := fmt.Sprintf("f%d", g.nfail)
		return fmt.Sprintf("CREATE TABLE %s (a, b) AS SELECT id, 10 / (id - %d) FROM t0;", name, k), name
	case 10:
		return fmt.Sprintf("CREATE TABLE %s (a);", t), ""
	case 11:
		return fmt.Sprintf("ALTER TABLE %s ADD y DEFAULT 10 / (id - %d);", t, k), ""
	case 12:
		return fmt.Sprintf("ALTER TABLE %s DROP no_such_column;", t), ""
	case 13:
		return fmt.Sprintf("ALTER TABLE %s RENAME n TO s;", t), ""
	case 14:
		return "UPDATE t0, t1 SET n = 1 FROM t0 JOIN t1 ON t0.id = t1.id;", ""
	case 30, 31:
		// several columns added by one statement, a later one fails: none of them is there afterwards
		return g.r.PickS(
			fmt.Sprintf("ALTER TABLE %s ADD (m1 DEFAULT 'x', m2 DEFAULT 1 / (id - %d));", t, k),
			fmt.Sprintf("ALTER TABLE %s ADD (m1, m2 DEFAULT n * 2, m1);", t),
			fmt.Sprintf("ALTER TABLE %s ADD (m1 DEFAULT id, m2 DEFAULT (SELECT no_such_col FROM t0)) FIRST;", t),
			fmt.Sprintf("ALTER TABLE %s ADD (m1 DEFAULT 1, id) AFTER id;", t)), ""
	default:
		return fmt.Sprintf("UPDATE %s SET s = 'first-item-done', n = 10 / (id - %d);", t, k), ""
	}
}

func genC08(seed uint64) (*Scenario, *c08Meta) {
	r := Sub(seed, "c08")
	g := &c08gen{r: r, tables: []string{"t0", "t1"}}
	big := r.Bool(0.1)
	g.rows = r.Range(1, 8)
	if big {
		g.rows = r.Range(100, 300)
	}
	m := &c08Meta{Rows: g.rows}
	sc := &Scenario{Prop: "C08"}
	// 40 % of the sessions keep one or both tables in another format than CSV
	// (the attributes of the file, e.g. the delimiter positions of a fixed-length
	// table, are state that a failing statement must leave alone as well)
	fr := Sub(seed, "c08-formats")
	f0, f1 := "csv", "csv"
	if fr.Bool(0.4) {
		f0 = fr.PickS("tsv", "ltsv", "json", "jsonl", "fixed", "fixed")
		if fr.Bool(0.4) {
			f1 = fr.PickS("tsv", "ltsv", "json", "jsonl", "fixed")
		}
	}
	anchor := func(f, text string) string {
		if f == "ltsv" || f == "json" || f == "jsonl" {
			return text + "50,1,owl\n51,2,pig\n" // formats without a header line lose their columns with their last row
		}
		return text
	}
	e0, c0 := benignTableAs(anchor(f0, c01Table(g.rows, 0)), f0)
	e1, c1 := benignTableAs(anchor(f1, c01Table(g.rows, 2)), f1)
	m.Files = []string{"t0" + e0, "t1" + e1}
	m.Fixed = f0 == "fixed" || f1 == "fixed"
	sc.Files = []FileSpec{{Name: "t0" + e0, Content: c0}, {Name: "t1" + e1, Content: c1}, {Name: "bystander.csv", Content: "a,b\n1,2\n"}}
	if r.Bool(0.6) {
		g.steps = append(g.steps, c08Step{Kind: "stmt", Src: "DECLARE tv VIEW (id, n);"}, c08Step{Kind: "stmt", Src: "INSERT INTO tv VALUES (1, 10), (2, 20), (3, 30);"})
		g.tables = append(g.tables, "tv")
	}
	n := r.Range(3, 8)
	for i := 0; i < n; i++ {
		g.dump()
		if r.Bool(0.55) {
			src, mustNotExist := g.failStmt()
			g.steps = append(g.steps, c08Step{Kind: "stmt", Src: src, Fails: true})
			if mustNotExist != "" {
				g.steps = append(g.steps, c08Step{Kind: "probe", Src: fmt.Sprintf("SELECT COUNT(*) FROM %s;", mustNotExist), Tables: []string{mustNotExist}})
			}
		} else if r.Bool(0.15) {
			name := fmt.Sprintf("c%d", i)
			// two steps: each Execute call must be one statement, or a failure in the second
			// half would legitimately leave the effect of the first
			g.steps = append(g.steps, c08Step{Kind: "stmt", Src: fmt.Sprintf("CREATE TABLE %s (id, n);", name)}, c08Step{Kind: "stmt", Src: fmt.Sprintf("INSERT INTO %s VALUES (1, 1);", name)})
			g.tables = append(g.tables, name)
		} else {
			g.steps = append(g.steps, c08Step{Kind: "stmt", Src: g.okStmt()})
		}
	}
	rv := Sub(seed, "c08-variants")
	if rv.Bool(0.12) {
		// a COMMIT that fails while it writes (the device is full at the k-th write of the
		// session) and is issued again: what the failed attempt had written is not part of
		// what the second one commits
		g.dump()
		g.steps = append(g.steps, c08Step{Kind: "stmt", Src: "COMMIT;", Fails: true})
		sc.Torn = &TornSpec{Proc: 0, NthWrite: rv.Pick(1, 1, 2, 3), Frac: rv.Float(), FailErrno: rv.PickS("ENOSPC", "EIO")}
	}
	g.dump()
	g.steps = append(g.steps, c08Step{Kind: "stmt", Src: "COMMIT;"})
	stdinMode := f1 == "csv" && rv.Bool(0.12)
	if stdinMode {
		// the second table is standard input (a temporary table csvq declares itself):
		// the statements written for t1 go to STDIN, the file t1.csv becomes a bystander
		re := regexp.MustCompile(`\bt1\b`)
		for i := range g.steps {
			g.steps[i].Src = re.ReplaceAllString(g.steps[i].Src, "STDIN")
			for k, tb := range g.steps[i].Tables {
				if tb == "t1" {
					g.steps[i].Tables[k] = "STDIN"
				}
			}
		}
		for i, tb := range g.tables {
			if tb == "t1" {
				g.tables[i] = "STDIN"
			}
		}
	}
	m.Steps = g.steps
	for t := range g.reformatted {
		m.Reformat = append(m.Reformat, t)
	}
	sort.Strings(m.Reformat)
	for _, t := range g.tables {
		if t != "tv" && t != "STDIN" {
			m.Final = append(m.Final, t)
		}
	}
	sort.Strings(m.Final)
	cpu := r.Pick(1, 1, 2, 4)
	sc.Procs = []ProcSpec{{CPU: cpu, WaitTimeoutS: 10.0000001, RetryDelayNs: 10001009, Quiet: true, Format: "CSV", Shell: true}}
	if stdinMode {
		sc.Procs[0].HasStdin = true
		sc.Procs[0].Stdin = c01Table(g.rows, 2)
	}
	if m.Fixed {
		sc.Procs[0].Flags = map[string]string{"IMPORT_FORMAT": "FIXED"}
	}
	sc.Procs[0].Flags = mergeFlags(swarmFlags(Sub(seed, "c08-flags"), 0.3, true), sc.Procs[0].Flags)
	renderC08(sc, m)
	avoidBareCR(sc.Procs[0].Flags, sc.Files, strings.Join(sc.Procs[0].Statements, "\n"))
	if big {
		sc.Knobs = Knobs{RowStride: 16, Pool: "lifo", MinPerCore: r.Pick(0, 20)}
	} else {
		sc.Knobs = Knobs{RowStride: 1, Pool: "lifo", MinPerCore: r.Pick(1, 2)}
	}
	sc.Sched = SchedSpec{Strategy: "sticky", Sticky: 0.6, Seed: hashLabel(seed, "s")}
	sc.MaxSteps = 500000
	return sc, m
}

func renderC08(sc *Scenario, m *c08Meta) {
	p := &sc.Procs[0]
	p.Statements = nil
	for _, s := range m.Steps {
		p.Statements = append(p.Statements, s.Src)
	}
	if sc.Meta == nil {
		sc.Meta = map[string]string{}
	}
	sc.Meta["workload"] = mustJSON(m)
}

type c08 struct{}

func init() { Register(c08{}) }

func (c08) Prop() string { return "C08" }

func (c08) Gen(seed uint64, tier string) *Scenario {
	sc, _ := genC08(seed)
	return sc
}

func (c08) Shrinks(c *Case) []*Case {
	var meta c08Meta
	mustUnJSON(c.Scenario.Meta["workload"], &meta)
	var out []*Case
	for i := len(meta.Steps) - 2; i >= 0; i-- {
		st := meta.Steps[i]
		if st.Kind != "stmt" || strings.HasPrefix(st.Src, "DECLARE") || strings.HasPrefix(st.Src, "CREATE TABLE c") {
			continue
		}
		cand := cloneCase(c)
		var m c08Meta
		mustUnJSON(cand.Scenario.Meta["workload"], &m)
		m.Steps = append(m.Steps[:i:i], m.Steps[i+1:]...)
		renderC08(cand.Scenario, &m)
		out = append(out, cand)
	}
	return out
}

func parseTableDump(sec string) map[string]string {
	d := map[string]string{}
	cur := ""
	for _, l := range strings.Split(sec, "\n") {
		if strings.HasPrefix(l, "@T ") {
			cur = strings.TrimPrefix(l, "@T ")
			d[cur] = ""
			continue
		}
		if cur != "" {
			d[cur] += l + "\n"
		}
	}
	return d
}

func (c08) Eval(t *testing.T, c *Case, dec func(int) *Decider) *Outcome {
	sc := c.Scenario
	var meta c08Meta
	mustUnJSON(sc.Meta["workload"], &meta)
	o := &Outcome{}
	const prop = "C08"
	if !meta.Injected {
		meta.Injected = true
		// (no cancellations in sessions that read standard input: a cancelled first load has
		// consumed the stream, and the table is empty for the rest of the session - a pipe
		// cannot be read twice)
		if Sub(c.Seed, "inj").Bool(0.4) && !sc.Procs[0].HasStdin {
			base := *sc
			base.Cancels = nil
			pre, _ := Execute(t, &base, NewRecorder(hashLabel(c.Seed, "pre")))
			o.Runs++
			if y := pre.ProcYields[0]; y > 1 {
				r := Sub(c.Seed, "stmtcancel")
				n := 1 + r.Intn(2)
				inStmt, polls := c08StmtYields(pre, &meta)
				for i := 0; i < n; i++ {
					at := 1 + r.Intn(y)
					if len(polls) > 0 && r.Bool(0.2) {
						// a cancellation is noticed where the statement polls its context (between two
						// phases, between two target tables): aim at those points
						at = polls[r.Intn(len(polls))]
						o.Stats.probe("cancel-aimed-at-context-poll")
					} else if len(inStmt) > 0 && r.Bool(0.7) {
						// most yields of a session belong to loads and dumps: aim at the
						// evaluation of the data-changing statements themselves
						at = inStmt[r.Intn(len(inStmt))]
					}
					sc.Cancels = append(sc.Cancels, CancelSpec{Proc: 0, AtYield: at, Stmt: true})
				}
			}
		}
		sc.Meta["workload"] = mustJSON(&meta)
	}
	res, _ := Execute(t, sc, dec(0))
	o.Runs++
	o.addStats(res.Stats)
	o.LogHash, o.TraceHash = res.LogHash, res.TraceHash
	o.Trace = tail(res.Log, 200)
	p := res.Procs[0]
	if res.Hang != "" || res.LimitHit || res.BubbleErr != "" || p.Panic != "" {
		o.viol(prop, "termination", "hang-or-panic", fmt.Sprintf("session did not end: %s %s %s", res.Hang, res.BubbleErr, p.Panic))
		return o
	}
	secs, _, finished := shellSections(p.Stdout)
	if !finished {
		o.viol(prop, "termination", "session-ended-early", "the session ended before its last statement: "+p.ErrText)
		return o
	}
	isErr := func(i int) (bool, string) {
		s := secs[fmt.Sprintf("%d.0", i)]
		for _, l := range strings.Split(s, "\n") {
			if strings.HasPrefix(l, "ERROR ") {
				return true, l
			}
		}
		return false, ""
	}
	failedTotal := 0
	var lastDump map[string]string
	lastDumpIdx := -1
	lastDumpOK := false
	failed := 0
	for i, st := range meta.Steps {
		switch st.Kind {
		case "dump":
			if e, _ := isErr(i); e {
				lastDumpOK = false // a cancelled dump says nothing
				o.Stats.probe("dump-cancelled")
				continue
			}
			d := parseTableDump(secs[fmt.Sprintf("%d.0", i)])
			// compare with the previous dump when every statement in between failed
			if lastDumpOK && failed > 0 {
				allFailed := true
				var errs []string
				for j := lastDumpIdx + 1; j < i; j++ {
					if meta.Steps[j].Kind != "stmt" {
						continue
					}
					e, msg := isErr(j)
					if !e {
						allFailed = false
					}
					errs = append(errs, meta.Steps[j].Src+" -> "+msg)
				}
				if allFailed {
					for _, tb := range st.Tables {
						if before, ok := lastDump[tb]; ok && before != d[tb] {
							kind := "file-table"
							if tb == "tv" {
								kind = "temporary-table"
							}
							o.viol(prop, "failed-statement-changes-nothing", "table-changed-by-failed-statement:"+kind+":"+stmtVerb(errs),
								fmt.Sprintf("table %s differs before and after a statement that returned an error: %s\n  %s", tb, firstDiff(before, d[tb]), strings.Join(errs, "\n  ")))
						}
					}
					o.Stats.probe("failed-statement-checked")
				}
			}
			lastDump, lastDumpIdx, lastDumpOK, failed = d, i, true, 0
		case "stmt":
			if e, msg := isErr(i); e {
				failed++
				failedTotal++
				if strings.Contains(msg, "context canceled") || strings.Contains(msg, "Context") {
					o.Stats.probe("failed-by-cancellation")
				} else {
					o.Stats.probe("failed-by-data")
				}
			} else if st.Fails {
				o.Stats.probe("constructed-failure-did-not-fail")
			}
		case "probe":
			if created, _ := isErr(i - 1); !created {
				continue // the CREATE did not fail after all (its failing row had been deleted)
			}
			if e, msg := isErr(i); !e {
				o.viol(prop, "failed-create", "failed-create-left-table", fmt.Sprintf("CREATE TABLE failed but table %s is visible to the following statement", st.Tables[0]))
			} else if !strings.Contains(msg, "does not exist") && !strings.Contains(msg, "anceled") && !strings.Contains(msg, "Context") {
				// the following statement must not find anything of the table: any other
				// failure (a lock timeout on the leftover file, a parse error of an empty
				// file) means that the failed CREATE left the file or its lock behind
				o.viol(prop, "failed-create", "failed-create-left-file", fmt.Sprintf("CREATE TABLE %s failed, but the following statement does not report the table as missing: %s", st.Tables[0], msg))
			} else {
				o.Stats.probe("failed-create-probed")
			}
		}
	}
	// the final COMMIT writes exactly the last dump
	commitIdx := len(meta.Steps) - 1
	if e, msg := isErr(commitIdx); e {
		if sc.Torn != nil && strings.Contains(msg, "write temp") {
			// the injected device error hit the last COMMIT instead of the one before it
			o.Stats.probe("injected-write-error-hit-final-commit")
			return o
		}
		headerless := false
		for _, f := range meta.Files {
			if e := filepath.Ext(f); e == ".ltsv" || e == ".json" || e == ".jsonl" {
				headerless = true
			}
		}
		if (meta.Fixed || len(meta.Reformat) > 0 || headerless) && (strings.Contains(msg, "value is too long") || strings.Contains(msg, "data empty")) {
			// (LTSV cannot hold a table without records: "data empty")
			// a value outgrew its column of a fixed-length table: COMMIT refuses with a documented error
			o.Stats.probe("fixed-length-commit-refused")
			return o
		}
		if !strings.Contains(msg, "canceled") {
			o.viol(prop, "commit", "commit-failed:"+errClass(msg), "the final COMMIT failed: "+msg)
		}
		return o
	}
	if lastDumpOK && lastDumpIdx == commitIdx-1 {
		fsc := &Scenario{Prop: prop, Knobs: sc.Knobs, Sched: SchedSpec{Strategy: "uniform", Seed: 1}, MaxSteps: 200000}
		for name, f := range res.Final {
			fsc.Files = append(fsc.Files, FileSpec{Name: name, Content: f.Data})
		}
		var st []string
		// (what csvq writes as fixed-length text does not always read back as the same
		// table - that is the round-trip property C02 -, so tables in that format are
		// compared byte-wise with the session without the failed statements only)
		isFixed := func(tb string) bool {
			for _, rt := range meta.Reformat {
				if rt == tb {
					return true
				}
			}
			if !meta.Fixed {
				return false
			}
			if _, ok := res.Final[tb]; ok {
				return true // a file without an extension (created by the session): written in the import format
			}
			for _, f := range meta.Files {
				if strings.TrimSuffix(f, filepath.Ext(f)) == tb {
					return filepath.Ext(f) == ".txt"
				}
			}
			return true
		}
		var freshTabs []string
		for _, tb := range meta.Final {
			if !isFixed(tb) {
				freshTabs = append(freshTabs, tb)
			}
		}
		for _, tb := range freshTabs {
			st = append(st, fmt.Sprintf("ECHO '@T %s';", tb), fmt.Sprintf("SELECT * FROM %s;", tb))
		}
		fsc.Procs = []ProcSpec{{Program: strings.Join(st, "\n"), CPU: 1, WaitTimeoutS: 1, RetryDelayNs: 10001009, Quiet: true, Format: "CSV", Flags: sc.Procs[0].Flags}}
		fres, _ := Execute(t, fsc, dec(1))
		o.Runs++
		if fres.Procs[0].ExitCode != 0 {
			o.viol(prop, "commit", "unreadable-after-commit", "a fresh process cannot read the committed tables: "+fres.Procs[0].ErrText)
		} else {
			fd := parseTableDump(fres.Procs[0].Stdout)
			for _, tb := range freshTabs {
				if want, ok := lastDump[tb]; ok && strings.Count(strings.TrimSpace(want), "\n") == 0 {
					headerless := false
					for _, f := range meta.Files {
						if e := filepath.Ext(f); strings.TrimSuffix(f, e) == tb && (e == ".ltsv" || e == ".json" || e == ".jsonl") {
							headerless = true
						}
					}
					if headerless {
						continue // a format without a header line cannot keep the columns of a table without records
					}
				}
				if want, ok := lastDump[tb]; ok && strings.TrimRight(fd[tb], "\n") != strings.TrimRight(want, "\n") {
					o.viol(prop, "commit", "commit-wrote-partial-effects",
						fmt.Sprintf("table %s as committed differs from what the session saw before COMMIT: %s", tb, firstDiff(want, fd[tb])))
				}
			}
			o.Stats.probe("commit-checked")
		}
		for name := range res.Final {
			if strings.HasPrefix(name, "f") && strings.HasSuffix(name, ".csv") {
				o.viol(prop, "failed-create", "failed-create-committed", "a table whose CREATE failed exists after COMMIT: "+name)
			}
		}
	}
	// a table on which every statement failed (or that was never targeted) must not
	// be rewritten by the final COMMIT: same bytes, same inode
	if e, _ := isErr(commitIdx); !e {
		for ti, tb := range []string{"t0", "t1"} {
			touched := false
			for i, st := range meta.Steps {
				if st.Kind != "stmt" || !mentions(st.Src, tb) {
					continue
				}
				if failedStmt, _ := isErr(i); !failedStmt {
					touched = true
				}
			}
			if touched {
				continue
			}
			f := sc.Files[ti]
			if got, ok := res.Final[f.Name]; !ok || got.Data != f.Content {
				o.viol(prop, "commit", "untouched-table-rewritten", fmt.Sprintf("every statement on %s failed, yet COMMIT changed its bytes", tb))
			} else if b, a := res.StartIDs[f.Name], res.FinalIDs[f.Name]; b.ino != a.ino {
				o.viol(prop, "commit", "untouched-table-rewritten", fmt.Sprintf("every statement on %s failed, yet COMMIT replaced the file (inode %d -> %d)", tb, b.ino, a.ino))
			} else {
				o.Stats.probe("untouched-table-identical")
			}
		}
	}
	// metamorphic: the session without its failed statements must end in the same state
	if e, _ := isErr(commitIdx); !e && failedTotal > 0 && lastDumpOK && lastDumpIdx == commitIdx-1 {
		alt := *sc
		alt.Procs = append([]ProcSpec{}, sc.Procs...)
		alt.Cancels = nil
		alt.Torn = nil
		var am c08Meta
		am = meta
		am.Steps = nil
		for i, st := range meta.Steps {
			if st.Kind == "stmt" {
				if failedStmt, _ := isErr(i); failedStmt {
					continue
				}
			}
			if st.Kind == "probe" {
				continue
			}
			am.Steps = append(am.Steps, st)
		}
		keep := alt.Meta
		alt.Meta = map[string]string{}
		renderC08(&alt, &am)
		alt.Meta = keep
		ares, _ := Execute(t, &alt, dec(2))
		o.Runs++
		asecs, _, afin := shellSections(ares.Procs[0].Stdout)
		if afin {
			ad := parseTableDump(asecs[fmt.Sprintf("%d.0", len(am.Steps)-2)])
			for tb, want := range ad {
				if got, ok := lastDump[tb]; ok && strings.TrimRight(got, "\n") != strings.TrimRight(want, "\n") {
					o.viol(prop, "failed-statement-changes-nothing", "differs-from-session-without-failed-statements:"+tb[:1],
						fmt.Sprintf("table %s ends differently than in the same session with the %d failed statement(s) left out: %s", tb, failedTotal, firstDiff(want, got)))
				}
			}
			for _, tb := range meta.Final {
				name := tb // a created table: the file has the name given
				for _, f := range append([]string{"t0.csv", "t1.csv"}, meta.Files...) {
					if strings.TrimSuffix(f, filepath.Ext(f)) == tb {
						name = f
					}
				}
				if a, b := res.Final[name].Data, ares.Final[name].Data; a != b {
					o.viol(prop, "commit", "commit-differs-from-session-without-failed-statements", fmt.Sprintf("committed file %s differs from the one written by the same session without its failed statements: %s", name, firstDiff(b, a)))
				}
			}
			o.Stats.probe("compared-with-session-without-failed-statements")
		}
	}
	o.NonTrivial = o.Stats.Probes["failed-statement-checked"] > 0
	o.Sample = map[string]interface{}{"seed": c.Seed, "statements": sc.Procs[0].Statements, "cancels": sc.Cancels, "cpu": sc.Procs[0].CPU, "rows": meta.Rows}
	return o
}

func stmtVerb(errs []string) string {
	if len(errs) == 0 {
		return "?"
	}
	f := strings.Fields(errs[0])
	if len(f) > 1 && (f[0] == "ALTER" || f[0] == "CREATE") {
		return f[0] + "-" + f[1]
	}
	return f[0]
}

// mentions reports whether a statement text refers to table tb as a word.
func mentions(src, tb string) bool {
	for _, w := range strings.FieldsFunc(src, func(r rune) bool {
		return !(r >= 'a' && r <= 'z' || r >= 'A' && r <= 'Z' || r >= '0' && r <= '9' || r == '_')
	}) {
		if w == tb {
			return true
		}
	}
	return false
}

// c08StmtYields returns the yield numbers (of process 0, in a run without
// cancellations) that lie inside the execution of the data-changing statements,
// found by matching the scheduler step of every "@S i" marker with the steps
// of the event log.
func c08StmtYields(pre *RunResult, meta *c08Meta) ([]int, []int) {
	type span struct{ from, to int64 }
	var spans []span
	var marks []OutStamp
	for _, st := range pre.Procs[0].Stamps {
		if strings.HasPrefix(st.Text, "@S ") {
			marks = append(marks, st)
		}
	}
	for mi, mk := range marks {
		var i, rep int
		if _, err := fmt.Sscanf(mk.Text, "@S %d.%d", &i, &rep); err != nil || i >= len(meta.Steps) || meta.Steps[i].Kind != "stmt" {
			continue
		}
		if strings.HasPrefix(meta.Steps[i].Src, "COMMIT") || strings.HasPrefix(meta.Steps[i].Src, "DECLARE") {
			continue
		}
		to := int64(1) << 62
		if mi+1 < len(marks) {
			to = marks[mi+1].Step
		}
		spans = append(spans, span{mk.Step, to})
	}
	var out, polls []int
	var step int64
	y := 0
	for _, l := range pre.Log {
		switch {
		case strings.HasPrefix(l, "at g") || strings.HasPrefix(l, "ev g"):
			if strings.Contains(l, " p0 ") {
				y++
				for _, sp := range spans {
					if step >= sp.from && step < sp.to {
						out = append(out, y)
						if strings.Contains(l, "auto:ctx:") {
							polls = append(polls, y) // the statement polls its context here
						}
						break
					}
				}
			}
		default:
			var n int64
			if _, err := fmt.Sscanf(l, "%d ", &n); err == nil {
				step = n
			}
		}
	}
	return out, polls
}
