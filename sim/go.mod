module verif/sim

go 1.26

replace github.com/mithrandie/csvq => /repo

require github.com/mithrandie/csvq v0.0.0-00010101000000-000000000000

require (
	github.com/anishathalye/porcupine v1.3.0
	github.com/mitchellh/go-homedir v1.1.0 // indirect
	github.com/mithrandie/go-file/v2 v2.1.0 // indirect
	github.com/mithrandie/go-text v1.6.0 // indirect
	github.com/mithrandie/readline-csvq v1.3.0 // indirect
	github.com/mithrandie/ternary v1.1.1 // indirect
	golang.org/x/crypto v0.7.0 // indirect
	golang.org/x/sys v0.6.0 // indirect
	golang.org/x/term v0.6.0 // indirect
	golang.org/x/text v0.8.0
)
