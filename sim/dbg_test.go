package sim
import ("testing";"os";"strconv")
func TestDump(t *testing.T){
  seed, _ := strconv.ParseUint(os.Getenv("DBG_SEED"), 10, 64)
  sc, _ := genQueryScenario("C12", seed, "quick")
  os.MkdirAll("/tmp/dump", 0755)
  for _, f := range sc.Files { os.WriteFile("/tmp/dump/"+f.Name, []byte(f.Content), 0644) }
  os.WriteFile("/tmp/dump/prog.sql", []byte(sc.Procs[0].Program), 0644)
}
