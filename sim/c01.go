package sim

import (
	"bytes"
	"fmt"
	"os"
	"os/exec"
	"path/filepath"
	"sort"
	"strconv"
	"strings"
	"syscall"
	"testing"
	"time"
)

// C01: a transaction reaches the files all-or-nothing, according to how it ended.
//
// One process runs a generated procedure over file tables t0/t1, tables it
// creates, and a temporary table, mixing DML, CREATE/ALTER TABLE, COMMIT,
// ROLLBACK, IF and WHILE. The procedure itself prints marker-delimited dumps of
// every existing table at the start, after every COMMIT and ROLLBACK and at
// the end ("what the procedure saw"). It ends normally, by a failing
// statement, by EXIT, or by a cancellation at a seeded yield.

type c01Dump struct {
	Idx    int      `json:"idx"`
	Kind   string   `json:"kind"` // init | commit | rollback | final
	Ref    int      `json:"ref"`  // for rollback: index of the dump it must equal
	Tables []string `json:"tables"`
}

type c01Meta struct {
	Lines    []string  `json:"lines"`
	Dumps    []c01Dump `json:"dumps"`
	Ending   string    `json:"ending"` // normal | fail | exit | cancel
	Injected bool      `json:"injected"`
	FileTabs []string  `json:"file_tabs"` // file tables existing and committed after the whole program
	Rows     int       `json:"rows"`
	Files    []string  `json:"files,omitempty"`  // file names of t0 and t1 (their extension is their format)
	Refuse   string    `json:"refuse,omitempty"` // the scenario is built so that COMMIT must refuse one table at encoding time: ltsv-empty | jsonl-key | sjis-rune
}

// benignTableAs re-writes a header + rows CSV text without quotes in another
// format; it returns the file extension and the contents.
func benignTableAs(csvText, format string) (string, string) {
	lines := strings.Split(strings.TrimRight(csvText, "\n"), "\n")
	hdr := strings.Split(lines[0], ",")
	var b strings.Builder
	switch format {
	case "tsv":
		return ".tsv", strings.ReplaceAll(csvText, ",", "\t")
	case "ltsv":
		for _, l := range lines[1:] {
			f := strings.Split(l, ",")
			for i := range f {
				if i > 0 {
					b.WriteString("\t")
				}
				b.WriteString(hdr[i] + ":" + f[i])
			}
			b.WriteString("\n")
		}
		return ".ltsv", b.String()
	case "json", "jsonl":
		if format == "json" {
			b.WriteString("[")
		}
		for k, l := range lines[1:] {
			f := strings.Split(l, ",")
			if k > 0 && format == "json" {
				b.WriteString(",")
			}
			b.WriteString("{")
			for i := range f {
				if i > 0 {
					b.WriteString(",")
				}
				// (the key column stays a string: csvq does not match the integer 1 of a
				// REPLACE ... USING (id) with a JSON number 1 - value-equality questions
				// belong to other properties)
				if _, err := strconv.Atoi(f[i]); err == nil && hdr[i] != "id" {
					fmt.Fprintf(&b, "%q:%s", hdr[i], f[i])
				} else {
					fmt.Fprintf(&b, "%q:%q", hdr[i], f[i])
				}
			}
			b.WriteString("}")
			if format == "jsonl" {
				b.WriteString("\n")
			}
		}
		if format == "json" {
			b.WriteString("]\n")
			return ".json", b.String()
		}
		return ".jsonl", b.String()
	case "fixed":
		// generous widths: values grow during a procedure (n * 2, n + 1000, longer words)
		for _, l := range lines {
			for _, f := range strings.Split(l, ",") {
				fmt.Fprintf(&b, "%-20s", f)
			}
			b.WriteString("\n")
		}
		return ".txt", b.String()
	}
	return ".csv", csvText
}

func c01Table(rows int, off int) string {
	var b strings.Builder
	b.WriteString("id,n,s\n")
	for i := 1; i <= rows; i++ {
		fmt.Fprintf(&b, "%d,%d,%s\n", i, (i*3+off)%10, []string{"ant", "bee", "cat", "dog", "eel"}[(i+off)%5])
	}
	return b.String()
}

type c01gen struct {
	r        *Rng
	lines    []string
	dumps    []c01Dump
	cur      map[string]bool // tables existing now (files and the temporary table)
	com      map[string]bool // tables existing at the last commit
	extra    map[string]bool // table has the extra column x now
	extraCom map[string]bool
	lastCom  int
	nCreated int
	uniq     int
	csvTabs  []string // of t0 / t1: the ones kept as CSV files (ALTER TABLE ... SET of CSV attributes)
}

func (g *c01gen) names(m map[string]bool) []string {
	var l []string
	for n, ok := range m {
		if ok {
			l = append(l, n)
		}
	}
	sort.Strings(l)
	return l
}

func (g *c01gen) dump(kind string, ref int) int {
	idx := len(g.dumps)
	d := c01Dump{Idx: idx, Kind: kind, Ref: ref, Tables: g.names(g.cur)}
	g.lines = append(g.lines, fmt.Sprintf("ECHO '@D %d';", idx))
	for _, t := range d.Tables {
		g.lines = append(g.lines, fmt.Sprintf("ECHO '@T %d %s';", idx, t), fmt.Sprintf("SELECT * FROM %s;", t))
	}
	g.lines = append(g.lines, fmt.Sprintf("ECHO '@X %d';", idx))
	g.dumps = append(g.dumps, d)
	return idx
}

func (g *c01gen) pickTable() string {
	l := g.names(g.cur)
	return l[g.r.Intn(len(l))]
}

func (g *c01gen) dml() string {
	t := g.pickTable()
	g.uniq++
	tail := ""
	cols := "(id, n, s)"
	if t == "tv" || t == "tw" || strings.HasPrefix(t, "c") {
		cols = "(id, n)"
	}
	three := cols == "(id, n, s)"
	val := func(id, n int, s string) string {
		if three {
			return fmt.Sprintf("(%d, %d, '%s')", id, n, s)
		}
		return fmt.Sprintf("(%d, %d)", id, n)
	}
	_ = tail
	if three && g.r.Bool(0.07) {
		// statements that name two tables and change one of them (or both)
		o := "t1"
		if t == "t1" {
			o = "t0"
		}
		return g.r.PickS(
			fmt.Sprintf("UPDATE %s, %s SET %s.n = %s.n + 1 FROM %s JOIN %s ON %s.id = %s.id;", o, t, t, t, t, o, t, o),
			fmt.Sprintf("UPDATE %s, %s SET %s.n = %s.n + 1 FROM %s JOIN %s ON %s.id = %s.id;", t, o, t, t, t, o, t, o),
			fmt.Sprintf("UPDATE %s, %s SET %s.n = %s.n + 1, %s.n = %s.n + 2 FROM %s JOIN %s ON %s.id = %s.id;", t, o, t, t, o, o, t, o, t, o),
			fmt.Sprintf("DELETE %s, %s FROM %s JOIN %s ON %s.id = %s.id WHERE %s.id = %d;", o, t, t, o, t, o, t, 1+g.r.Intn(5)))
	}
	if g.r.Bool(0.08) {
		// every record is replaced by itself with values that only differ in their spelling (letter case,
		// surrounding blanks, a number written as a float): still a change of the table
		if three {
			return fmt.Sprintf("REPLACE INTO %s (id, n, s) USING (id) SELECT id, n, %s FROM %s;", t, g.r.PickS("UPPER(s)", "LOWER(s)", "UPPER(s)"), t)
		}
		return fmt.Sprintf("REPLACE INTO %s (id, n) USING (id) SELECT id, STRING(n) || '.0' FROM %s WHERE n IS NOT NULL;", t, t)
	}
	switch g.r.Intn(9) {
	case 0:
		return fmt.Sprintf("INSERT INTO %s %s VALUES %s;", t, cols, val(100+g.uniq, g.r.Intn(9), "new"))
	case 1:
		return fmt.Sprintf("UPDATE %s SET n = n + 1 WHERE id %% 2 = %d;", t, g.r.Intn(2))
	case 2:
		return fmt.Sprintf("DELETE FROM %s WHERE id = %d;", t, 1+g.r.Intn(6))
	case 3:
		return fmt.Sprintf("REPLACE INTO %s %s USING (id) VALUES %s, %s;", t, cols, val(1+g.r.Intn(4), 77, "rep"), val(200+g.uniq, 5, "rep"))
	case 4:
		// affects no record: the table is touched but not changed
		return fmt.Sprintf("UPDATE %s SET n = 0 WHERE id = 99999;", t)
	case 5:
		if three {
			return fmt.Sprintf("INSERT INTO %s (id, n, s) SELECT id + %d, n, 'sel' FROM t1 WHERE id < 3;", t, 1000+10*g.uniq)
		}
		return fmt.Sprintf("INSERT INTO %s (id, n) SELECT id + %d, n FROM t1 WHERE id < 3;", t, 1000+10*g.uniq)
	case 6:
		if t == "t0" || t == "t1" {
			o := map[string]string{"t0": "t1", "t1": "t0"}[t]
			return fmt.Sprintf("UPDATE %s SET %s.n = %s.n + 100 FROM %s JOIN %s ON %s.id = %s.id;", t, t, o, t, o, t, o)
		}
		return fmt.Sprintf("DELETE FROM %s WHERE id = 99999;", t)
	case 7:
		return fmt.Sprintf("REPLACE INTO %s %s USING (id) VALUES %s;", t, cols, val(1, 1, "same"))
	default:
		return fmt.Sprintf("UPDATE %s SET n = n * 2;", t)
	}
}

func genC01(seed uint64) (*Scenario, *c01Meta) {
	r := Sub(seed, "c01")
	g := &c01gen{r: r, cur: map[string]bool{"t0": true, "t1": true}, com: map[string]bool{"t0": true, "t1": true}, extra: map[string]bool{}, extraCom: map[string]bool{}}
	m := &c01Meta{Rows: r.Range(0, 8)}
	sc := &Scenario{Prop: "C01"}
	// the format of a table is part of "all initial table contents": 40 % of the
	// scenarios keep one or both tables in another format than CSV
	fr := Sub(seed, "c01-formats")
	f0, f1 := "csv", "csv"
	if fr.Bool(0.4) {
		// (not fixed-length: what csvq writes in that format does not read back as the
		// same table - automatic delimiter positions, columns added by ALTER TABLE -,
		// which is the round-trip property C02, not this one)
		f0 = fr.PickS("tsv", "ltsv", "json", "jsonl")
		if fr.Bool(0.4) {
			f1 = fr.PickS("tsv", "ltsv", "json", "jsonl")
		}
	}
	// 10 %: one of the tables cannot be encoded when it is written back (an LTSV table
	// without records, a JSON Lines table with a key that is no valid path, a character
	// the table's encoding lacks): COMMIT refuses with an error, and must refuse
	// completely - the other tables of the transaction included
	if fr.Bool(0.1) {
		m.Refuse = fr.PickS("ltsv-empty", "jsonl-key", "sjis-rune")
		switch m.Refuse {
		case "ltsv-empty":
			f0 = "ltsv"
		case "jsonl-key":
			f1 = "jsonl"
		case "sjis-rune":
			f0 = "csv"
		}
	}
	rows1 := r.Range(0, 8)
	if f0 != "csv" && f0 != "tsv" && f0 != "fixed" && m.Rows == 0 {
		m.Rows = 1 // formats without a header line: an empty file has no columns
	}
	if f1 != "csv" && f1 != "tsv" && f1 != "fixed" && rows1 == 0 {
		rows1 = 1
	}
	// formats without a header line lose their columns when the last row goes
	// (LTSV refuses to write, JSON writes []): two rows no statement deletes
	anchor := func(f, text string) string {
		if m.Refuse == "ltsv-empty" && f == "ltsv" {
			return text
		}
		if f == "ltsv" || f == "json" || f == "jsonl" {
			return text + "50,1,owl\n51,2,pig\n"
		}
		return text
	}
	e0, c0 := benignTableAs(anchor(f0, c01Table(m.Rows, 0)), f0)
	t1text := anchor(f1, c01Table(rows1, 2))
	if m.Refuse == "jsonl-key" {
		// a fourth column whose name is legal JSON but no valid path for csvq's JSON writer
		ls := strings.Split(strings.TrimRight(t1text, "\n"), "\n")
		for i := range ls {
			if i == 0 {
				ls[i] += ",c."
			} else {
				ls[i] += ",7"
			}
		}
		t1text = strings.Join(ls, "\n") + "\n"
	}
	e1, c1 := benignTableAs(t1text, f1)
	m.Files = []string{"t0" + e0, "t1" + e1}
	g.csvTabs = nil
	if f0 == "csv" {
		g.csvTabs = append(g.csvTabs, "t0")
	}
	if f1 == "csv" {
		g.csvTabs = append(g.csvTabs, "t1")
	}
	sc.Files = []FileSpec{
		{Name: "t0" + e0, Content: c0},
		{Name: "t1" + e1, Content: c1},
		{Name: "bystander.csv", Content: "a,b\n1,2\n"},
		{Name: "inc0.sql", Content: "UPDATE t0 SET n = n + 10 WHERE id < 3;\n"},
		{Name: "inc1.sql", Content: "INSERT INTO t1 (id, n, s) VALUES (901, 9, 'src');\nUPDATE t1 SET n = n + 1 WHERE id = 901;\n"},
		{Name: "exit0.sql", Content: "UPDATE t1 SET n = 55 WHERE id < 3;\nEXIT;\n"},
		{Name: "exitif.sql", Content: "IF (SELECT COUNT(*) FROM t0) >= 0 THEN\n  WHILE TRUE DO\n    EXIT 0;\n  END WHILE;\nEND IF;\nUPDATE t0 SET n = 4711;\n"},
		{Name: "fail.sql", Content: "UPDATE t0 SET n = n + 7;\nSELECT * FROM no_such_table;\n"},
	}
	if r.Bool(0.7) {
		// the temporary table gets its first contents and a restore point (COMMIT)
		// before the first dump, so that dump 0 is a commit point for it as well
		g.lines = append(g.lines, "DECLARE tv VIEW (id, n);", "INSERT INTO tv VALUES (1, 10), (2, 20);", "COMMIT;")
		g.cur["tv"], g.com["tv"] = true, true
		if r.Bool(0.5) {
			// a second temporary table of the same block: ROLLBACK restores every one of them
			g.lines = append(g.lines[:len(g.lines)-1], "DECLARE tw VIEW (id, n);", "INSERT INTO tw VALUES (1, 5), (7, 70);", "COMMIT;")
			g.cur["tw"], g.com["tw"] = true, true
		}
		g.dump("commit", 0)
	} else {
		g.dump("init", 0)
	}
	n := r.Range(3, 10)
	for i := 0; i < n; i++ {
		switch k := r.Intn(21); {
		case k == 18:
			// attributes of the written file are part of the transaction too
			if len(g.csvTabs) == 0 {
				g.lines = append(g.lines, g.dml())
				continue
			}
			t := g.csvTabs[r.Intn(len(g.csvTabs))]
			g.lines = append(g.lines, fmt.Sprintf("ALTER TABLE %s SET %s;", t, r.PickS("ENCLOSE_ALL TO TRUE", "LINE_BREAK TO CRLF", "LINE_BREAK TO LF", "ENCLOSE_ALL TO FALSE", "ENCODING TO UTF8M", "ENCODING TO UTF8")))
		case k == 19:
			// statements read from a file of the repository
			g.lines = append(g.lines, r.PickS("SOURCE `inc0.sql`;", "SOURCE `inc1.sql`;"))
		case k == 20:
			g.lines = append(g.lines, "SHOW TABLES; SHOW VIEWS; PRINTF '%s-%s' USING 'a', 1;")
		case k == 14:
			// statements executed from a string: they belong to the same transaction
			t := g.pickTable()
			g.lines = append(g.lines, r.PickS("EXECUTE 'PRINT 1';", fmt.Sprintf("EXECUTE 'UPDATE %s SET n = n + 3';", t),
				fmt.Sprintf("EXECUTE 'UPDATE %s SET n = n + %%s WHERE id = %%s' USING 5, %d;", t, 1+r.Intn(4)),
				fmt.Sprintf("EXECUTE 'DELETE FROM %s WHERE id = %%s; SELECT 1;' USING %d;", t, 1+r.Intn(6))))
		case k == 15:
			// a change made inside a user-defined function
			t := g.pickTable()
			g.lines = append(g.lines, fmt.Sprintf("DECLARE fn%d FUNCTION (@a) AS BEGIN UPDATE %s SET n = n + @a WHERE id < 3; RETURN @a; END; PRINT fn%d(%d);", i, t, i, 1+r.Intn(5)))
		case k == 16:
			g.lines = append(g.lines, fmt.Sprintf("CASE WHEN (SELECT COUNT(*) FROM %s) > %d THEN %s ELSE %s END CASE;", g.pickTable(), r.Intn(4), g.dml(), g.dml()))
		case k == 17:
			// a prepared statement executed twice
			t := g.pickTable()
			g.lines = append(g.lines, fmt.Sprintf("PREPARE ps%d FROM 'UPDATE %s SET n = n + ? WHERE id = ?'; EXECUTE ps%d USING 1, 1; EXECUTE ps%d USING 2, 2; DISPOSE PREPARE ps%d;", i, t, i, i, i))
		case k < 6:
			g.lines = append(g.lines, g.dml())
		case k == 6:
			g.lines = append(g.lines, fmt.Sprintf("IF (SELECT COUNT(*) FROM %s) > %d THEN %s END IF;", g.pickTable(), r.Intn(4), g.dml()))
		case k == 7 && r.Bool(0.5):
			// loops that are left or continued from inside: by CONTINUE / BREAK in the first, a middle or the
			// last iteration, from a nested block, from a nested loop, from a cursor loop
			at := r.Intn(3)
			switch r.Intn(5) {
			case 0:
				g.lines = append(g.lines, fmt.Sprintf("VAR @i%d := 0; WHILE @i%d < 3 DO @i%d := @i%d + 1; %s IF @i%d = %d THEN CONTINUE; END IF; %s END WHILE;", i, i, i, i, g.dml(), i, at+1, g.dml()))
			case 1:
				g.lines = append(g.lines, fmt.Sprintf("VAR @i%d := 0; WHILE @i%d < 3 DO @i%d := @i%d + 1; %s IF @i%d = %d THEN BREAK; END IF; %s END WHILE;", i, i, i, i, g.dml(), i, at+1, g.dml()))
			case 2:
				g.lines = append(g.lines, fmt.Sprintf("VAR @i%d := 0; VAR @j%d; WHILE @i%d < 2 DO @i%d := @i%d + 1; @j%d := 0; WHILE @j%d < 2 DO @j%d := @j%d + 1; IF @j%d = %d THEN CONTINUE; END IF; %s END WHILE; %s END WHILE;", i, i, i, i, i, i, i, i, i, i, 1+at%2, g.dml(), g.dml()))
			case 3:
				g.lines = append(g.lines, fmt.Sprintf("DECLARE lc%d CURSOR FOR SELECT id FROM t0 WHERE id <= 3; OPEN lc%d; VAR @l%d; WHILE @l%d IN lc%d DO IF @l%d = %d THEN CONTINUE; END IF; %s END WHILE; CLOSE lc%d; DISPOSE CURSOR lc%d;", i, i, i, i, i, i, at+1, g.dml(), i, i))
			default:
				g.lines = append(g.lines, fmt.Sprintf("VAR @i%d := 0; WHILE @i%d < 3 DO @i%d := @i%d + 1; CASE WHEN @i%d = %d THEN %s CONTINUE; ELSE %s END CASE; END WHILE;", i, i, i, i, i, at+1, g.dml(), g.dml()))
			}
		case k == 7:
			g.lines = append(g.lines, fmt.Sprintf("VAR @i%d := 0; WHILE @i%d < 2 DO %s @i%d := @i%d + 1; END WHILE;", i, i, g.dml(), i, i))
		case k == 8:
			name := fmt.Sprintf("c%d", g.nCreated)
			g.nCreated++
			g.lines = append(g.lines, fmt.Sprintf("CREATE TABLE %s (id, n);", name), fmt.Sprintf("INSERT INTO %s VALUES (1, 1), (2, 2);", name))
			g.cur[name] = true
		case k == 9:
			t := []string{"t0", "t1"}[r.Intn(2)]
			if g.extra[t] {
				g.lines = append(g.lines, fmt.Sprintf("ALTER TABLE %s DROP x;", t))
				g.extra[t] = false
			} else {
				g.lines = append(g.lines, fmt.Sprintf("ALTER TABLE %s ADD x DEFAULT n * 2;", t))
				g.extra[t] = true
			}
		case k < 12:
			g.lines = append(g.lines, "COMMIT;")
			g.com = map[string]bool{}
			for k2, v := range g.cur {
				g.com[k2] = v
			}
			g.extraCom = map[string]bool{}
			for k2, v := range g.extra {
				g.extraCom[k2] = v
			}
			g.lastCom = g.dump("commit", 0)
		default:
			// sometimes the transaction that is rolled back changed the shape of a
			// table without changing its width
			if r.Bool(0.3) {
				if g.cur["tv"] && r.Bool(0.6) {
					g.lines = append(g.lines, r.PickS("ALTER TABLE tv RENAME n TO m;", "ALTER TABLE tv ADD c DEFAULT 1; ALTER TABLE tv DROP n;", "ALTER TABLE tv RENAME id TO n2; UPDATE tv SET n = n + 1;"))
				} else {
					t := []string{"t0", "t1"}[r.Intn(2)]
					g.lines = append(g.lines, fmt.Sprintf("ALTER TABLE %s RENAME s TO z;", t))
				}
			}
			g.lines = append(g.lines, "ROLLBACK;")
			g.cur = map[string]bool{}
			for k2, v := range g.com {
				g.cur[k2] = v
			}
			g.extra = map[string]bool{}
			for k2, v := range g.extraCom {
				g.extra[k2] = v
			}
			g.dump("rollback", g.lastCom)
		}
	}
	switch m.Refuse {
	case "ltsv-empty":
		g.lines = append(g.lines, "UPDATE t1 SET n = n + 1;", "DELETE FROM t0;")
	case "jsonl-key":
		g.lines = append(g.lines, "UPDATE t0 SET n = n + 1;", "UPDATE t1 SET n = n + 1;")
	case "sjis-rune":
		g.lines = append(g.lines, "UPDATE t1 SET n = n + 1;", "ALTER TABLE t0 SET ENCODING TO SJIS;", "INSERT INTO t0 (id, n, s) VALUES (777, 1, '€uro');")
	}
	m.Ending = r.PickS("normal", "normal", "fail", "fail", "exit", "cancel", "cancel")
	switch m.Ending {
	case "fail":
		g.lines = append(g.lines, r.PickS(
			"INSERT INTO t0 VALUES (1, 2);",
			"UPDATE t1 SET n = 1 / 0;",
			"SELECT * FROM no_such_table;",
			"TRIGGER ERROR 7 'boom';",
			"INSERT INTO t1 (id, n, s) VALUES (1, 2, 3), (4, 5);",
			"UPDATE t0 SET nosuchcolumn = 1;",
			// failures raised inside blocks, functions, cursors loops and executed strings
			"IF TRUE THEN WHILE TRUE DO TRIGGER ERROR 8 'nested'; END WHILE; END IF;",
			"DECLARE ferr FUNCTION (@a) AS BEGIN UPDATE t0 SET n = n + 1000; TRIGGER ERROR 9 'in function'; RETURN @a; END; PRINT ferr(1);",
			"DECLARE cz CURSOR FOR SELECT id FROM t1; OPEN cz; VAR @z; WHILE @z IN cz DO UPDATE t1 SET n = 1 / (id - id); END WHILE;",
			"EXECUTE 'UPDATE t0 SET n = n + 5; SELECT * FROM no_such_table;';",
			"CASE WHEN TRUE THEN INSERT INTO t1 (id, n, s) VALUES (902, 1, 'x'); SELECT 1 / 0 FROM t1; END CASE;",
			"SOURCE `fail.sql`;\nUPDATE t1 SET n = 31337;",
		))
	case "exit":
		g.lines = append(g.lines, r.PickS("EXIT;", "EXIT 3;", "IF TRUE THEN WHILE TRUE DO EXIT 4; END WHILE; END IF;",
			"DECLARE fex FUNCTION () AS BEGIN UPDATE t0 SET n = n + 2000; EXIT 5; RETURN 1; END; PRINT fex();", "EXECUTE 'UPDATE t1 SET n = 77; EXIT;';", "EXIT 0;",
			// the run is ended by a file that is read with SOURCE; statements after it must not run
			"SOURCE `exit0.sql`;\nUPDATE t0 SET n = 31337;", "SOURCE `exitif.sql`;\nDELETE FROM t1;", "UPDATE t0 SET n = n + 1; SOURCE `exit0.sql`; UPDATE t1 SET n = 31337;"))
	default:
		g.dump("final", 0)
		// the implicit commit must not depend on what the last statement is
		switch r.Intn(4) {
		case 0:
			g.lines = append(g.lines, "SELECT COUNT(*) FROM t0;")
		case 1:
			g.lines = append(g.lines, "IF TRUE THEN SELECT COUNT(*) FROM t1; END IF;")
		case 2:
			g.lines = append(g.lines, "VAR @last := 1;")
		}
	}
	m.Lines, m.Dumps = g.lines, g.dumps
	if m.Ending == "normal" || m.Ending == "cancel" {
		for _, t := range g.names(g.cur) {
			if t != "tv" && t != "tw" {
				m.FileTabs = append(m.FileTabs, t)
			}
		}
	}
	cpu := r.Pick(1, 1, 2, 4)
	sc.Procs = []ProcSpec{{Program: strings.Join(g.lines, "\n"), CPU: cpu, WaitTimeoutS: 10.0000001, RetryDelayNs: 10001009, Quiet: true, Format: "CSV"}}
	if f0 == "fixed" || f1 == "fixed" {
		sc.Procs[0].Flags = map[string]string{"IMPORT_FORMAT": "FIXED"}
	}
	// session flags that change how tables are parsed, compared and written (the
	// fresh process that reads the result uses the same ones)
	sc.Procs[0].Flags = mergeFlags(swarmFlags(Sub(seed, "c01-flags"), 0.3, true), sc.Procs[0].Flags)
	avoidBareCR(sc.Procs[0].Flags, sc.Files, sc.Procs[0].Program)
	sc.Meta = map[string]string{"workload": mustJSON(m)}
	sc.Knobs = Knobs{RowStride: 1, Pool: "lifo", MinPerCore: r.Pick(0, 2)}
	if strings.Contains(strings.Join(g.lines, "\n"), "SOURCE `") {
		// SOURCE resolves its file relative to the working directory: run this
		// procedure without --repository, inside the run directory
		sc.Knobs.RelRepo = true
	}
	sc.Sched = SchedSpec{Strategy: "sticky", Sticky: 0.7, Seed: hashLabel(seed, "s")}
	sc.MaxSteps = 200000
	return sc, m
}

type c01 struct{}

func init() { Register(c01{}) }

func (c01) Prop() string { return "C01" }

func (c01) Gen(seed uint64, tier string) *Scenario {
	sc, _ := genC01(seed)
	return sc
}

// commitSnapObserver snapshots the directory at every tx.commit.done.
type commitSnapObserver struct {
	start  DirState
	snaps  []DirState
	inSwap bool
	yields int
}

func (o *commitSnapObserver) OnArrival(k *Kernel, g *G, a *arrival) {
	if o.start == nil {
		o.start = SnapshotDir(k.Dir)
	}
	switch a.point {
	case "tx.commit.swap":
		o.inSwap = true
	case "tx.commit.done":
		o.inSwap = false
		o.snaps = append(o.snaps, SnapshotDir(k.Dir))
	}
}

func (o *commitSnapObserver) last() DirState {
	if len(o.snaps) == 0 {
		return o.start
	}
	return o.snaps[len(o.snaps)-1]
}

// parseDumps returns dumps[idx][table] = CSV text, and which dumps completed.
func parseDumps(out string) (map[int]map[string]string, map[int]bool) {
	d := map[int]map[string]string{}
	done := map[int]bool{}
	var idx int
	var tab string
	in := false
	for _, l := range strings.Split(out, "\n") {
		switch {
		case strings.HasPrefix(l, "@D "):
			fmt.Sscanf(l, "@D %d", &idx)
			d[idx] = map[string]string{}
			in = false
		case strings.HasPrefix(l, "@T "):
			fmt.Sscanf(l, "@T %d %s", &idx, &tab)
			d[idx][tab] = ""
			in = true
		case strings.HasPrefix(l, "@X "):
			fmt.Sscanf(l, "@X %d", &idx)
			done[idx] = true
			in = false
		default:
			if in {
				d[idx][tab] += l + "\n"
			}
		}
	}
	return d, done
}

func dirDiff(a, b DirState) string {
	var d []string
	for _, n := range a.Names() {
		if _, ok := b[n]; !ok {
			d = append(d, "missing "+n)
		} else if a[n].Data != b[n].Data {
			d = append(d, "changed "+n)
		}
	}
	for _, n := range b.Names() {
		if _, ok := a[n]; !ok {
			d = append(d, "extra "+n)
		}
	}
	return strings.Join(d, ", ")
}

func (c01) Eval(t *testing.T, c *Case, dec func(int) *Decider) *Outcome {
	sc := c.Scenario
	var meta c01Meta
	mustUnJSON(sc.Meta["workload"], &meta)
	o := &Outcome{}
	const prop = "C01"
	if meta.Ending == "cancel" && !meta.Injected {
		// find out how many yields the procedure makes, then cancel inside
		base := *sc
		base.Cancels = nil
		pre, _ := Execute(t, &base, NewRecorder(hashLabel(c.Seed, "pre")))
		o.Runs++
		y := pre.ProcYields[0]
		if y < 1 {
			y = 1
		}
		sc.Cancels = []CancelSpec{{Proc: 0, AtYield: 1 + Sub(c.Seed, "cancel").Intn(y)}}
		meta.Injected = true
		sc.Meta["workload"] = mustJSON(&meta)
	}
	obs := &commitSnapObserver{}
	res, _ := Execute(t, sc, dec(0), obs)
	o.Runs++
	o.addStats(res.Stats)
	o.LogHash, o.TraceHash = res.LogHash, res.TraceHash
	o.Trace = tail(res.Log, 200)
	o.NonTrivial = true
	p := res.Procs[0]
	if res.Hang != "" || res.LimitHit || res.BubbleErr != "" || p.Panic != "" {
		o.viol(prop, "termination", "hang-or-panic", fmt.Sprintf("procedure did not end: %s %s %s", res.Hang, res.BubbleErr, p.Panic))
		return o
	}
	ending := meta.Ending
	abnormal := p.ExitCode != 0 || ending == "exit"
	switch {
	case p.ExitCode == 0 && ending != "exit":
		o.Stats.probe("end:normal")
	case strings.Contains(p.ErrType, "SignalReceived"):
		o.Stats.probe("end:interrupt")
		if obs.inSwap {
			o.Stats.probe("cancel-inside-swap-phase")
		}
	case ending == "exit":
		o.Stats.probe("end:exit")
	default:
		o.Stats.probe("end:error")
	}
	if ending == "normal" && p.ExitCode != 0 && strings.Contains(p.ErrText, "value is too long") && sc.Procs[0].Flags["IMPORT_FORMAT"] == "FIXED" {
		// a value outgrew its column of a fixed-length table: COMMIT refuses with a
		// documented error, which makes this an ending by error
		ending = "fail"
		o.Stats.probe("fixed-length-commit-refused")
	}
	if ending == "normal" && p.ExitCode != 0 && strings.Contains(p.ErrText, "to set in the field") && strings.Contains(p.ErrText, "is ambiguous") {
		// a join update whose joined table has got two records with the same key (an INSERT repeated by a
		// loop): csvq rightly refuses the statement, which makes this an ending by error (seen once in
		// 530 000 thorough evaluations, where it was first reported as scenario-error: a false alarm of
		// the generator, not a finding)
		ending = "fail"
		o.Stats.probe("join-update-ambiguous:ending-by-error")
	}
	if ending == "normal" && p.ExitCode != 0 && meta.Refuse != "" && strings.Contains(p.ErrText, "failed to commit") {
		// the table that cannot be encoded: COMMIT refuses, which makes this an ending by error
		ending = "fail"
		o.Stats.probe("commit-refused-at-encoding:" + meta.Refuse)
	}
	if (ending == "normal") && p.ExitCode != 0 {
		o.viol(prop, "scenario", "scenario-error:"+errClass(p.ErrText), "a procedure that should end normally failed: "+p.ErrText)
		return o
	}
	dumps, done := parseDumps(p.Stdout)

	// ROLLBACK restores the state of the most recent COMMIT (temporary table included)
	for _, d := range meta.Dumps {
		if d.Kind != "rollback" || !done[d.Idx] || !done[d.Ref] {
			continue
		}
		for _, tb := range d.Tables {
			if dumps[d.Idx][tb] != dumps[d.Ref][tb] {
				kind := "file-table"
				if tb == "tv" || tb == "tw" {
					kind = "temporary-table"
				}
				o.viol(prop, "rollback-restores", "rollback-differs:"+kind,
					fmt.Sprintf("after ROLLBACK table %s is not what it was at the most recent COMMIT (dump %d vs %d): %s", tb, d.Idx, d.Ref, firstDiff(dumps[d.Ref][tb], dumps[d.Idx][tb])))
			}
		}
		o.Stats.probe("rollback-dump-checked")
	}

	// Without the tx.commit.done event (a tree whose Commit lost the hook) the
	// commits are counted from the output instead: the dump that follows the k-th
	// COMMIT statement completed => that commit completed. A run cancelled at an
	// unknown point of a COMMIT cannot be judged that way and is skipped.
	noCommitEvents := hookMissing("tx.commit.done")
	if noCommitEvents {
		o.Stats.probe("oracle-fallback:commit-count-from-output")
		if strings.Contains(p.ErrType, "SignalReceived") || ending == "cancel" {
			return o
		}
	}
	// the directory after the end == the directory at the most recent COMMIT
	want := obs.last()
	if diff := dirDiff(want, res.Final); diff != "" && !noCommitEvents {
		how := "normal end"
		if abnormal {
			how = "end by " + ending + " (" + firstLine(p.ErrText) + ")"
		}
		o.viol(prop, "all-or-nothing", "directory-differs-from-last-commit:"+ending,
			fmt.Sprintf("after the %s the directory differs from its state at the most recent completed COMMIT: %s", how, diff))
	}
	if by, ok := res.Final["bystander.csv"]; !ok || by.Data != "a,b\n1,2\n" {
		o.viol(prop, "untouched", "bystander-changed", "a file the transaction never touched changed")
	}

	// what a fresh process reads == what the procedure saw at the commit point that
	// corresponds to the last COMMIT that completed (explicit ones are never inside
	// IF/WHILE, so the k-th tx.commit.done belongs to the k-th COMMIT statement; one
	// more than there are COMMIT statements means the implicit commit at a normal end)
	lastDump := -1
	var commitDumps []int
	finalDump, initDump := -1, -1
	for _, d := range meta.Dumps {
		switch d.Kind {
		case "commit":
			commitDumps = append(commitDumps, d.Idx)
		case "final":
			finalDump = d.Idx
		case "init":
			initDump = d.Idx
		}
	}
	nDone := len(obs.snaps)
	if noCommitEvents {
		nDone = 0
		for _, ci := range commitDumps {
			if done[ci] {
				nDone++
			}
		}
		if p.ExitCode == 0 && ending != "exit" {
			nDone++ // the implicit commit of a normal end
		}
	}
	switch {
	case nDone == 0:
		lastDump = initDump
	case nDone <= len(commitDumps):
		lastDump = commitDumps[nDone-1]
	default:
		lastDump = finalDump
		if finalDump < 0 {
			o.Stats.probe("implicit-commit-without-final-dump")
		}
	}
	if !noCommitEvents && (ending == "exit" || (ending == "fail" && p.ExitCode != 0)) && len(obs.snaps) > len(commitDumps) {
		o.viol(prop, "all-or-nothing", "commit-on-abnormal-end:"+ending,
			fmt.Sprintf("the procedure ended by %s (%s) after %d COMMIT statement(s), but %d commits were performed: changes made since the last COMMIT were written", ending, firstLine(p.ErrText), len(commitDumps), len(obs.snaps)))
	}
	if ending == "normal" && p.ExitCode == 0 && finalDump >= 0 {
		// "When a procedure ends normally, every table holds on disk exactly the state the procedure last
		// saw": whatever the commit events say, the reference is the final dump - and a procedure that ends
		// with code 0 and no message has run all its statements
		if !done[finalDump] {
			o.viol(prop, "disk-equals-last-seen", "normal-end-before-the-last-statement",
				fmt.Sprintf("the procedure ended with exit code 0 and no error before it had run all its statements (final dump %d missing; %d commit(s) performed)", finalDump, len(obs.snaps)))
		}
		lastDump = finalDump
	}
	if lastDump >= 0 && !done[lastDump] {
		lastDump = -1 // the run ended while printing that dump
	}
	if lastDump >= 0 && len(o.Violations) == 0 {
		var tabs []string
		for tb := range dumps[lastDump] {
			if tb != "tv" && tb != "tw" {
				tabs = append(tabs, tb)
			}
		}
		sort.Strings(tabs)
		// after an abnormal end the reference is the last COMMIT dump; a final dump only
		// counts when the run ended normally (it is followed by the implicit commit)
		fsc := &Scenario{Prop: prop, Knobs: sc.Knobs, Sched: SchedSpec{Strategy: "uniform", Seed: 1}, MaxSteps: 100000}
		for name, f := range res.Final {
			fsc.Files = append(fsc.Files, FileSpec{Name: name, Content: f.Data})
		}
		var st []string
		for _, tb := range tabs {
			st = append(st, fmt.Sprintf("ECHO '@T 0 %s';", tb), fmt.Sprintf("SELECT * FROM %s;", tb))
		}
		st = append([]string{"ECHO '@D 0';"}, append(st, "ECHO '@X 0';")...)
		fsc.Procs = []ProcSpec{{Program: strings.Join(st, "\n"), CPU: 1, WaitTimeoutS: 1, RetryDelayNs: 10001009, Quiet: true, Format: "CSV", Flags: sc.Procs[0].Flags}}
		fres, _ := Execute(t, fsc, dec(1))
		o.Runs++
		fd, fdone := parseDumps(fres.Procs[0].Stdout)
		if !fdone[0] {
			o.viol(prop, "readable", "tables-unreadable-after-end", fmt.Sprintf("a fresh process cannot read the tables after the end: %s", fres.Procs[0].ErrText))
		} else {
			for _, tb := range tabs {
				if fd[0][tb] != dumps[lastDump][tb] {
					o.viol(prop, "disk-equals-last-seen", "disk-differs-from-last-seen:"+ending,
						fmt.Sprintf("table %s on disk is not what the procedure saw at its last commit point (dump %d): %s", tb, lastDump, firstDiff(dumps[lastDump][tb], fd[0][tb])))
				}
			}
			o.Stats.probe("fresh-read-checked")
		}
	}
	// ALTER TABLE ... SET changes how the file is written, not what the table
	// holds: wherever it stands inside its transaction, the committed bytes must
	// be the same. Run the procedure again with every SET statement moved to the
	// start of its transaction and compare the files.
	if p.ExitCode == 0 && ending == "normal" && len(o.Violations) == 0 {
		alt, moved := c01HoistSetStatements(meta.Lines)
		if moved {
			asc := *sc
			asc.Cancels = nil
			asc.Procs = append([]ProcSpec{}, sc.Procs...)
			asc.Procs[0].Program = strings.Join(alt, "\n")
			ares, _ := Execute(t, &asc, dec(2))
			o.Runs++
			if ares.Procs[0].ExitCode == 0 && ares.Hang == "" {
				names := meta.Files
				if len(names) == 0 {
					names = []string{"t0.csv", "t1.csv"}
				}
				for _, name := range names {
					if a, b := res.Final[name].Data, ares.Final[name].Data; a != b {
						o.viol(prop, "all-or-nothing", "attributes-not-written", fmt.Sprintf("%s is written differently when the ALTER TABLE ... SET statements of a transaction stand after other changes to the table than when they stand first: %s", name, firstDiff(b, a)))
					}
				}
				o.Stats.probe("set-attribute-order-checked")
			}
		}
	}
	// real-process tier: the same procedure through the real binary (cli/app.go: option
	// parsing, signal set-up, deferred rollback and release), which the simulated shell
	// replica stands in for. Without faults the run is a function of program and files:
	// exit code and directory must equal the simulated ones.
	if bin := os.Getenv("VERIF_CSVQ_BIN"); bin != "" && len(o.Violations) == 0 && len(sc.Cancels) == 0 && !sc.Knobs.RelRepo && meta.Ending != "cancel" && Sub(c.Seed, "c01-real").Bool(c01RealShare()) {
		dir, code, stderr, err := realPlainRun(bin, sc)
		o.RealProc++
		if err == errRealTimeout {
			// once more: a process that hangs twice in a row hangs; a single stall on a
			// loaded machine is noted and nothing else
			first := stderr
			dir, code, stderr, err = realPlainRun(bin, sc)
			o.RealProc++
			if err == errRealTimeout {
				o.viol(prop, "termination", "real-process-hang", fmt.Sprintf("the real csvq binary did not end the procedure within 30 s, twice in a row (the simulated process ended with exit %d); goroutines after SIGABRT: %s", p.ExitCode, tail([]string{stderr}, 1)[0][max(0, len(stderr)-3000):]))
				err = nil
				dir = nil
			} else {
				o.Stats.probe("real-run-stalled-once")
				o.Notes = append(o.Notes, "one real-process run stalled for 30 s and ended normally when repeated; goroutines after SIGABRT: "+first[max(0, len(first)-1500):])
			}
		}
		switch {
		case dir == nil && err == nil:
		case err != nil:
			o.Infra = append(o.Infra, "real-process tier: "+err.Error())
		case code != p.ExitCode:
			o.viol(prop, "fidelity", "real-run-differs-from-simulation:exit-code", fmt.Sprintf("the real csvq binary ends the procedure with exit code %d, the simulated process with %d (%s); stderr: %s", code, p.ExitCode, firstLine(p.ErrText), firstLine(stderr)))
		default:
			if diff := dirDiff(res.Final, dir); diff != "" {
				o.viol(prop, "all-or-nothing", "real-run-differs-from-simulation:"+ending, fmt.Sprintf("after the same procedure (ending: %s, exit %d) the directory of the real csvq binary differs from the simulated one: %s", ending, code, diff))
			} else {
				o.Stats.probe("real-run-equals-simulation")
			}
		}
	}
	o.Sample = map[string]interface{}{"seed": c.Seed, "program": sc.Procs[0].Program, "ending": ending, "cancels": sc.Cancels, "exit": p.ExitCode, "err": firstLine(p.ErrText), "commits_observed": len(obs.snaps), "final_files": res.Final.Names()}
	return o
}

func (c01) Shrinks(c *Case) []*Case {
	// the dump bookkeeping depends on the exact statement list: shrink only by
	// dropping DML lines (which no dump refers to)
	var meta c01Meta
	mustUnJSON(c.Scenario.Meta["workload"], &meta)
	var out []*Case
	for i := len(meta.Lines) - 1; i >= 0; i-- {
		l := meta.Lines[i]
		if !(strings.HasPrefix(l, "INSERT") || strings.HasPrefix(l, "UPDATE") || strings.HasPrefix(l, "DELETE") || strings.HasPrefix(l, "REPLACE") || strings.HasPrefix(l, "IF ") || strings.HasPrefix(l, "VAR @i")) {
			continue
		}
		if i > 0 && strings.HasPrefix(meta.Lines[i-1], "CREATE TABLE") {
			continue
		}
		cand := cloneCase(c)
		var m c01Meta
		mustUnJSON(cand.Scenario.Meta["workload"], &m)
		m.Lines = append(m.Lines[:i:i], m.Lines[i+1:]...)
		cand.Scenario.Procs[0].Program = strings.Join(m.Lines, "\n")
		cand.Scenario.Meta["workload"] = mustJSON(&m)
		out = append(out, cand)
	}
	return out
}

// c01HoistSetStatements moves every "ALTER TABLE t SET ..." line to the start
// of the transaction it belongs to (after the preceding COMMIT / ROLLBACK
// line), keeping their relative order. It reports whether anything moved.
func c01HoistSetStatements(lines []string) ([]string, bool) {
	var out, segRest, segSets []string
	moved := false
	flush := func() {
		out = append(out, segSets...)
		out = append(out, segRest...)
		segRest, segSets = nil, nil
	}
	for _, l := range lines {
		switch {
		case strings.HasPrefix(l, "ALTER TABLE") && strings.Contains(l, " SET ") && !strings.Contains(l, "; "):
			if len(segRest) > 0 {
				moved = true
			}
			segSets = append(segSets, l)
		case l == "COMMIT;" || l == "ROLLBACK;":
			flush()
			out = append(out, l)
		default:
			segRest = append(segRest, l)
		}
	}
	flush()
	return out, moved
}

// realPlainRun runs the program of the scenario's only process in the real csvq
// binary, in a fresh copy of the scenario's files, without any fault.
func realPlainRun(bin string, sc *Scenario) (DirState, int, string, error) {
	setupBase()
	dir, err := os.MkdirTemp(BaseDir, "real01-")
	if err != nil {
		return nil, 0, "", err
	}
	defer os.RemoveAll(dir)
	if err := writeFiles(dir, sc.Files); err != nil {
		return nil, 0, "", err
	}
	ps := sc.Procs[0]
	args := []string{"--repository", dir, "--quiet", "--cpu", fmt.Sprint(max(ps.CPU, 1)), "--format", "CSV"}
	args = append(append(args, cliFlagArgs(ps.Flags)...), ps.Program)
	cmd := exec.Command(bin, args...)
	cmd.Dir = filepath.Join(BaseDir, "cwd")
	var stderr bytes.Buffer
	cmd.Stderr = &stderr
	done := make(chan error, 1)
	if err := cmd.Start(); err != nil {
		return nil, 0, "", err
	}
	go func() { done <- cmd.Wait() }()
	select {
	case err := <-done:
		code := 0
		if ee, ok := err.(*exec.ExitError); ok {
			code = ee.ExitCode()
		} else if err != nil {
			return nil, 0, stderr.String(), err
		}
		return SnapshotDir(dir), code, stderr.String(), nil
	case <-time.After(30 * time.Second):
		// SIGABRT is not among the signals csvq handles: the Go runtime prints every goroutine's stack
		_ = cmd.Process.Signal(syscall.SIGABRT)
		select {
		case <-done:
		case <-time.After(3 * time.Second):
			_ = cmd.Process.Kill()
		}
		return nil, 0, stderr.String(), errRealTimeout
	}
}

var errRealTimeout = fmt.Errorf("real process did not terminate within 30 s")

// c01RealShare: the share of fault-free procedures that also run in the real
// binary (VERIF_C01_REAL_P overrides it for experiments).
func c01RealShare() float64 {
	if v := os.Getenv("VERIF_C01_REAL_P"); v != "" {
		if f, err := strconv.ParseFloat(v, 64); err == nil {
			return f
		}
	}
	return 0.06
}
