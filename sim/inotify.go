package sim

import (
	"encoding/binary"
	"strings"
	"syscall"
)

// dirWatch records the name-level operations (create, delete, rename, modify)
// performed in a directory, so that the directory states BETWEEN two
// scheduling points can be reconstructed when the code under test performs
// more than one file-system call between them (a change to csvq may add calls
// that have no hook in front of them).
type dirWatch struct {
	fd int
}

type dirEvent struct {
	Op     string // create | delete | from | to | modify
	Name   string
	Cookie uint32
}

func newDirWatch(dir string) *dirWatch {
	fd, err := syscall.InotifyInit1(syscall.IN_NONBLOCK | syscall.IN_CLOEXEC)
	if err != nil {
		return nil
	}
	mask := uint32(syscall.IN_CREATE | syscall.IN_DELETE | syscall.IN_MOVED_FROM | syscall.IN_MOVED_TO | syscall.IN_MODIFY)
	if _, err := syscall.InotifyAddWatch(fd, dir, mask); err != nil {
		_ = syscall.Close(fd)
		return nil
	}
	return &dirWatch{fd: fd}
}

func (w *dirWatch) Close() {
	if w != nil {
		_ = syscall.Close(w.fd)
	}
}

// Drain returns the events since the last call.
func (w *dirWatch) Drain() []dirEvent {
	if w == nil {
		return nil
	}
	var out []dirEvent
	buf := make([]byte, 64*1024)
	for {
		n, err := syscall.Read(w.fd, buf)
		if n <= 0 || err != nil {
			break
		}
		for off := 0; off+16 <= n; {
			mask := binary.LittleEndian.Uint32(buf[off+4:])
			cookie := binary.LittleEndian.Uint32(buf[off+8:])
			l := int(binary.LittleEndian.Uint32(buf[off+12:]))
			name := strings.TrimRight(string(buf[off+16:off+16+l]), "\x00")
			off += 16 + l
			ev := dirEvent{Name: maskRLock(name), Cookie: cookie}
			switch {
			case mask&syscall.IN_CREATE != 0:
				ev.Op = "create"
			case mask&syscall.IN_DELETE != 0:
				ev.Op = "delete"
			case mask&syscall.IN_MOVED_FROM != 0:
				ev.Op = "from"
			case mask&syscall.IN_MOVED_TO != 0:
				ev.Op = "to"
			case mask&syscall.IN_MODIFY != 0:
				ev.Op = "modify"
			default:
				continue
			}
			out = append(out, ev)
		}
	}
	return out
}

// intermediateStates applies the operations one at a time to `before` and
// returns the directory after each operation except the last (the state after
// the last one is the next real image). A rename (from+to with one cookie)
// is one operation. Contents of modified files are taken from `after`.
func intermediateStates(before, after DirState, evs []dirEvent) []DirState {
	// group into operations
	type op struct{ evs []dirEvent }
	var ops []op
	for i := 0; i < len(evs); i++ {
		e := evs[i]
		if e.Op == "from" && i+1 < len(evs) && evs[i+1].Op == "to" && evs[i+1].Cookie == e.Cookie {
			ops = append(ops, op{evs: []dirEvent{e, evs[i+1]}})
			i++
			continue
		}
		if e.Op == "modify" && len(ops) > 0 && len(ops[len(ops)-1].evs) == 1 && ops[len(ops)-1].evs[0] == e {
			continue // consecutive writes to one file: one visible step is enough
		}
		ops = append(ops, op{evs: []dirEvent{e}})
	}
	if len(ops) < 2 {
		return nil
	}
	cur := DirState{}
	for k, v := range before {
		cur[k] = v
	}
	moved := map[uint32]FileState{}
	var out []DirState
	for i, o := range ops {
		for _, e := range o.evs {
			switch e.Op {
			case "create":
				cur[e.Name] = FileState{}
			case "delete":
				delete(cur, e.Name)
			case "from":
				moved[e.Cookie] = cur[e.Name]
				delete(cur, e.Name)
			case "to":
				if f, ok := moved[e.Cookie]; ok {
					cur[e.Name] = f
				} else {
					cur[e.Name] = after[e.Name]
				}
			case "modify":
				cur[e.Name] = after[e.Name]
			}
		}
		if i < len(ops)-1 {
			snap := DirState{}
			for k, v := range cur {
				snap[k] = v
			}
			out = append(out, snap)
		}
	}
	return out
}
