package sim

import (
	"strings"
	"testing"
	"time"
)

// Minimize shrinks a failing case by delta debugging while the same violation
// signature persists: fewer processes, statements and rows, fewer faults, and
// a shorter / more zero-filled decision vector (zero = "lowest runnable id",
// i.e. fewest context switches).
func Minimize(t *testing.T, ch Checker, c *Case, budget time.Duration) *Case {
	sig := c.Violation.Sig
	start := time.Now()
	best := cloneCase(c)
	attempts := 0
	try := func(cand *Case) bool {
		if time.Since(start) > budget {
			return false
		}
		attempts++
		// first with the recorded decisions, then with a few fresh schedules
		o := EvalReplay(t, ch, cand)
		if v := hasSig(o, sig); v != nil {
			cand.Violation, cand.LogHash, cand.Trace = v, o.LogHash, o.Trace
			return true
		}
		return false
	}
	tryFresh := func(cand *Case, n int) bool {
		for i := 0; i < n; i++ {
			if time.Since(start) > budget {
				return false
			}
			attempts++
			cc := cloneCase(cand)
			o := EvalRecord(t, ch, cc, hashLabel(c.Seed, "min")+uint64(attempts))
			if v := hasSig(o, sig); v != nil {
				*cand = *cc
				cand.Violation, cand.LogHash, cand.Trace = v, o.LogHash, o.Trace
				return true
			}
		}
		return false
	}
	if !try(best) {
		// not reproducible in this process: give the case back unchanged
		best.Note = "minimizer could not reproduce the violation"
		return best
	}

	changed := true
	for changed && time.Since(start) < budget {
		changed = false
		// structural: drop faults, cancels, torn spec
		for i := range best.Scenario.Faults {
			cand := cloneCase(best)
			cand.Scenario.Faults = append(append([]FaultSpec{}, best.Scenario.Faults[:i]...), best.Scenario.Faults[i+1:]...)
			if try(cand) || tryFresh(cand, 3) {
				best, changed = cand, true
				break
			}
		}
		for i := range best.Scenario.Cancels {
			cand := cloneCase(best)
			cand.Scenario.Cancels = append(append([]CancelSpec{}, best.Scenario.Cancels[:i]...), best.Scenario.Cancels[i+1:]...)
			if try(cand) || tryFresh(cand, 3) {
				best, changed = cand, true
				break
			}
		}
		// structural: property-specific candidates (drop processes, transactions, rows ...)
		if sh, ok := ch.(Shrinker); ok {
			for progress := true; progress && time.Since(start) < budget; {
				progress = false
				for _, cand := range sh.Shrinks(best) {
					if try(cand) || tryFresh(cand, 4) {
						best, changed, progress = cand, true, true
						break
					}
				}
			}
		} else {
			// generic: drop statements (lines of a program) from the end first
			for pi := range best.Scenario.Procs {
				lines := strings.Split(best.Scenario.Procs[pi].Program, "\n")
				for li := len(lines) - 1; li >= 0 && len(lines) > 1; li-- {
					if strings.HasPrefix(lines[li], "ECHO '@") {
						continue // markers are needed by the oracle
					}
					cand := cloneCase(best)
					nl := append(append([]string{}, lines[:li]...), lines[li+1:]...)
					cand.Scenario.Procs[pi].Program = strings.Join(nl, "\n")
					if try(cand) || tryFresh(cand, 2) {
						best, changed = cand, true
						lines = nl
					}
				}
			}
		}
		// decisions: truncate, then zero chunks
		for di := range best.Decisions {
			vec := best.Decisions[di]
			for n := len(vec) / 2; n >= 1; n /= 2 {
				for off := 0; off+n <= len(vec); {
					// try cutting the tail
					if off == 0 && len(vec) > n {
						cand := cloneCase(best)
						cand.Decisions[di] = append([]int{}, vec[:len(vec)-n]...)
						if try(cand) {
							best, changed = cand, true
							vec = best.Decisions[di]
							continue
						}
					}
					allZero := true
					for _, v := range vec[off : off+n] {
						if v != 0 {
							allZero = false
						}
					}
					if !allZero {
						cand := cloneCase(best)
						nv := append([]int{}, vec...)
						for i := off; i < off+n; i++ {
							nv[i] = 0
						}
						cand.Decisions[di] = nv
						if try(cand) {
							best, changed = cand, true
							vec = best.Decisions[di]
						}
					}
					off += n
				}
			}
		}
	}
	best.Note = "minimised"
	return best
}

// Shrinker is implemented by checkers that know how to simplify their own
// scenarios without breaking what their oracle assumes about them.
type Shrinker interface {
	Shrinks(c *Case) []*Case
}

func cloneCase(c *Case) *Case {
	var n Case
	mustUnJSON(mustJSON(c), &n)
	return &n
}
