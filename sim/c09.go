package sim

import (
	"fmt"
	"sort"
	"strconv"
	"strings"
	"testing"
	"time"

	"github.com/anishathalye/porcupine"
)

// ---------------------------------------------------------------------------
// shared multi-process workload: counter tables updated by concurrent
// transactions. Used by C09 (and, with other oracles, by C20 and C11).

type TxnSpec struct {
	Kind   string `json:"kind"` // inc | selinc | ins | read | forupd
	Table  int    `json:"table"`
	Key    int    `json:"key"`
	Commit bool   `json:"commit"`
	Form   int    `json:"form,omitempty"`   // forupd: 1 = the table is the joined (second) table of the FOR UPDATE query
	Noop   int    `json:"noop,omitempty"`   // forupd / inc: a data-changing statement that matches no record follows the first statement (1 UPDATE, 2 DELETE, 3 INSERT ... SELECT of nothing)
	Peek   int    `json:"peek,omitempty"`   // forupd / inc / selinc: while the table is held, it is also read through another access path (1..6)
	Table2 int    `json:"table2,omitempty"` // inc2: the second table of the transaction
	Key2   int    `json:"key2,omitempty"`
}

type wtChoice struct {
	wt    float64
	retry int64
}

var wtChoices = []wtChoice{
	{0.05, 10_000_000}, {0.3, 10_000_000}, {2, 50_000_000}, {10, 200_000_000}, {60, 1_000_000_000},
}

func tableName(i int) string {
	if i >= 10 {
		return fmt.Sprintf("l%d", i-10) // a symbolic link l<k>.csv -> t<k>.csv (C20)
	}
	return fmt.Sprintf("t%d", i)
}

func counterTable(rows int) string {
	var b strings.Builder
	b.WriteString("id,n\n")
	for i := 1; i <= rows; i++ {
		fmt.Fprintf(&b, "%d,0\n", i)
	}
	return b.String()
}

// txnProgram renders transaction j of a process. Markers:
//
//	@B j        transaction begins (invoke)
//	@Q j.k      the next lines are the k-th result set (CSV with header)
//	@M j        between the plain SELECT and the data-changing statement of selinc
//	@E j        transaction has ended (after COMMIT/ROLLBACK)
func txnProgram(j int, tx TxnSpec, uniq int) []string {
	t := tableName(tx.Table)
	sel := func(k int, suffix string) []string {
		return []string{fmt.Sprintf("ECHO '@Q %d.%d';", j, k), fmt.Sprintf("SELECT id, n FROM %s%s;", t, suffix)}
	}
	// while the transaction holds the table it also reads it through another access path: the table stays held
	peek := func() []string {
		if tx.Peek == 0 {
			return nil
		}
		q := []string{
			fmt.Sprintf("SELECT COUNT(*) FROM CSV_INLINE(',', `%s.csv`);", t),
			fmt.Sprintf("SELECT COUNT(*) FROM CSV(',', `%s.csv`);", t),
			fmt.Sprintf("SHOW FIELDS FROM %s;", t),
			fmt.Sprintf("SELECT COUNT(*) FROM `./%s.csv`;", t),
			fmt.Sprintf("DECLARE pk%d CURSOR FOR SELECT id FROM %s; OPEN pk%d; CLOSE pk%d; DISPOSE CURSOR pk%d;", j, t, j, j, j),
			fmt.Sprintf("SELECT (SELECT COUNT(*) FROM %s) FROM one;", t),
		}[(tx.Peek-1)%6]
		return []string{fmt.Sprintf("ECHO '@P %d';", j), q}
	}
	var s []string
	s = append(s, fmt.Sprintf("ECHO '@B %d';", j))
	switch tx.Kind {
	case "create":
		// several processes create a table of the same name: at most one of them can
		// commit it, and what that one committed survives the others' failures
		s = append(s, "CREATE TABLE shared (id, n);", fmt.Sprintf("INSERT INTO shared VALUES (%d, 0);", uniq))
	case "read":
		s = append(s, sel(1, "")...)
	case "inc":
		switch tx.Form {
		case 1:
			// the same increment through a join (every table of the FROM clause is loaded for update)
			s = append(s, fmt.Sprintf("UPDATE x SET x.n = x.n + 1 FROM %s x JOIN one y ON y.k = 1 WHERE x.id = %d;", t, tx.Key))
		case 2:
			// ... and as a REPLACE that reads the table it writes
			s = append(s, fmt.Sprintf("REPLACE INTO %s (id, n) USING (id) SELECT id, n + 1 FROM %s WHERE id = %d;", t, t, tx.Key))
		case 3:
			// the read half of the increment sits in the WITH clause of the data-changing statement
			s = append(s, fmt.Sprintf("WITH w AS (SELECT n FROM %s WHERE id = %d) UPDATE %s SET n = (SELECT n FROM w) + 1 WHERE id = %d;", t, tx.Key, t, tx.Key))
		case 4:
			s = append(s, fmt.Sprintf("WITH w (id, n) AS (SELECT id, n + 1 FROM %s WHERE id = %d) REPLACE INTO %s (id, n) USING (id) SELECT id, n FROM w;", t, tx.Key, t))
		case 5:
			s = append(s, fmt.Sprintf("WITH w AS (SELECT id, n FROM %s WHERE id = %d) UPDATE x SET x.n = w.n + 1 FROM %s x JOIN w ON x.id = w.id;", t, tx.Key, t))
		case 6:
			// ... or in a sub-query of the FROM clause that stands before the target table
			s = append(s, fmt.Sprintf("UPDATE x SET x.n = q.m FROM (SELECT n + 1 AS m FROM %s WHERE id = %d) q CROSS JOIN %s x WHERE x.id = %d;", t, tx.Key, t, tx.Key))
		default:
			s = append(s, fmt.Sprintf("UPDATE %s SET n = n + 1 WHERE id = %d;", t, tx.Key))
		}
		s = append(s, peek()...)
		s = append(s, sel(2, "")...)
	case "inc2":
		// one transaction over two tables (processes take them in either order: the lock-order cycle is
		// resolved by the wait timeout, and whoever gives up changes neither table)
		t2 := tableName(tx.Table2)
		s = append(s, fmt.Sprintf("UPDATE %s SET n = n + 1 WHERE id = %d;", t, tx.Key))
		s = append(s, fmt.Sprintf("ECHO '@M %d';", j))
		s = append(s, fmt.Sprintf("UPDATE %s SET n = n + 1 WHERE id = %d;", t2, tx.Key2))
		s = append(s, sel(2, "")...)
		s = append(s, fmt.Sprintf("ECHO '@Q %d.%d';", j, 3), fmt.Sprintf("SELECT id, n FROM %s;", t2))
	case "selinc":
		s = append(s, sel(1, "")...)
		s = append(s, fmt.Sprintf("ECHO '@M %d';", j))
		s = append(s, fmt.Sprintf("UPDATE %s SET n = n + 1 WHERE id = %d;", t, tx.Key))
		s = append(s, peek()...)
		s = append(s, sel(2, "")...)
	case "forupd":
		if tx.Form == 1 {
			// every table of the FROM clause is held, not only the first: the counter
			// table is reached through a join with the one-row table one.csv
			s = append(s, fmt.Sprintf("ECHO '@Q %d.%d';", j, 1), fmt.Sprintf("SELECT x.id, x.n FROM one y JOIN %s x ON y.k = 1 FOR UPDATE;", t))
		} else if tx.Form == 2 {
			// what the statement that takes the hold prints is the held state, also when it reads the
			// table through its WITH clause or through a sub-query standing before the table
			s = append(s, fmt.Sprintf("ECHO '@Q %d.%d';", j, 1), fmt.Sprintf("WITH w AS (SELECT id, n FROM %s) SELECT x.id, w.n FROM %s x JOIN w ON x.id = w.id FOR UPDATE;", t, t))
		} else if tx.Form == 3 {
			s = append(s, fmt.Sprintf("ECHO '@Q %d.%d';", j, 1), fmt.Sprintf("SELECT x.id, q.n FROM (SELECT id, n FROM %s) q JOIN %s x ON x.id = q.id FOR UPDATE;", t, t))
		} else if tx.Form == 4 {
			// the table named by a file: URL (a local file all the same)
			s = append(s, fmt.Sprintf("ECHO '@Q %d.%d';", j, 1), fmt.Sprintf("SELECT id, n FROM file:./%s.csv FOR UPDATE;", t))
		} else if tx.Form == 5 {
			// ... or only on the right-hand side of a set operator
			s = append(s, fmt.Sprintf("ECHO '@Q %d.%d';", j, 1), fmt.Sprintf("SELECT id, n FROM %s WHERE id < 0 UNION ALL SELECT id, n FROM %s FOR UPDATE;", t, t))
		} else {
			s = append(s, sel(1, " FOR UPDATE")...)
		}
		s = append(s, peek()...)
		if tx.Noop > 0 {
			// the table stays held although this statement changes nothing
			s = append(s, []string{fmt.Sprintf("UPDATE %s SET n = n + 1 WHERE id = 99999;", t), fmt.Sprintf("DELETE FROM %s WHERE id = 99999;", t), fmt.Sprintf("INSERT INTO %s SELECT id, n FROM %s WHERE id = 99999;", t, t), fmt.Sprintf("ALTER TABLE %s SET HEADER TO TRUE;", t)}[tx.Noop-1])
		}
		s = append(s, fmt.Sprintf("UPDATE %s SET n = n + 1 WHERE id = %d;", t, tx.Key))
		s = append(s, sel(2, "")...)
	case "ins":
		if tx.Form == 1 {
			s = append(s, fmt.Sprintf("INSERT INTO %s (id, n) SELECT %d, k - 1 FROM one;", t, uniq))
		} else {
			s = append(s, fmt.Sprintf("INSERT INTO %s VALUES (%d, 0);", t, uniq))
		}
		s = append(s, sel(2, "")...)
	}
	s = append(s, fmt.Sprintf("ECHO '@C %d';", j)) // the transaction ends with the next statement
	if tx.Commit {
		s = append(s, "COMMIT;")
	} else {
		s = append(s, "ROLLBACK;")
	}
	s = append(s, fmt.Sprintf("ECHO '@E %d';", j))
	return s
}

func uniqKey(p, j int) int { return 100*(p+1) + j }

type c09Meta struct {
	Txns [][]TxnSpec `json:"txns"`
	Rows []int       `json:"rows"` // rows per table
}

// renderCounterProcs rebuilds the program texts from the workload description.
func renderCounterProcs(sc *Scenario, meta *c09Meta) {
	for p := range sc.Procs {
		var stmts []string
		for j, tx := range meta.Txns[p] {
			stmts = append(stmts, txnProgram(j, tx, uniqKey(p, j))...)
		}
		sc.Procs[p].Program = strings.Join(stmts, "\n")
	}
	sc.Meta = map[string]string{"workload": mustJSON(meta)}
}

// counterShrinks: drop a process, drop a transaction, drop a table row.
func counterShrinks(c *Case) []*Case {
	var meta c09Meta
	mustUnJSON(c.Scenario.Meta["workload"], &meta)
	var out []*Case
	mk := func(f func(sc *Scenario, m *c09Meta) bool) {
		cand := cloneCase(c)
		var m c09Meta
		mustUnJSON(cand.Scenario.Meta["workload"], &m)
		if f(cand.Scenario, &m) {
			renderCounterProcs(cand.Scenario, &m)
			out = append(out, cand)
		}
	}
	for p := range meta.Txns {
		p := p
		if len(meta.Txns) > 1 {
			mk(func(sc *Scenario, m *c09Meta) bool {
				m.Txns = append(m.Txns[:p:p], m.Txns[p+1:]...)
				sc.Procs = append(sc.Procs[:p:p], sc.Procs[p+1:]...)
				var cs []CancelSpec
				for _, x := range sc.Cancels {
					if x.Proc == p {
						continue
					}
					if x.Proc > p {
						x.Proc--
					}
					cs = append(cs, x)
				}
				sc.Cancels = cs
				var fs []FaultSpec
				for _, x := range sc.Faults {
					if x.Proc == p {
						continue
					}
					if x.Proc > p {
						x.Proc--
					}
					fs = append(fs, x)
				}
				sc.Faults = fs
				if sc.Sched.DelayProc >= len(sc.Procs) {
					sc.Sched.DelayProc = 0
				}
				return true
			})
		}
		for j := len(meta.Txns[p]) - 1; j >= 0; j-- {
			j := j
			if len(meta.Txns[p]) > 1 {
				mk(func(sc *Scenario, m *c09Meta) bool {
					m.Txns[p] = append(m.Txns[p][:j:j], m.Txns[p][j+1:]...)
					return true
				})
			}
		}
	}
	return out
}

func (c09) Shrinks(c *Case) []*Case { return counterShrinks(c) }

func genCounterScenario(prop string, seed uint64, tier string, maxProcs int) (*Scenario, *c09Meta) {
	r := Sub(seed, "workload")
	ntab := r.Pick(1, 1, 1, 2)
	meta := &c09Meta{}
	sc := &Scenario{Prop: prop}
	for i := 0; i < ntab; i++ {
		rows := r.Range(1, 3)
		meta.Rows = append(meta.Rows, rows)
		sc.Files = append(sc.Files, FileSpec{Name: tableName(i) + ".csv", Content: counterTable(rows)})
	}
	sc.Files = append(sc.Files, FileSpec{Name: "one.csv", Content: "k\n1\n"}) // first table of the join form of FOR UPDATE
	nproc := r.Range(2, maxProcs)
	kinds := []string{"inc", "inc", "selinc", "ins", "read", "read", "forupd"}
	for p := 0; p < nproc; p++ {
		ntx := r.Range(1, 3)
		var txs []TxnSpec
		var stmts []string
		for j := 0; j < ntx; j++ {
			tb := r.Intn(ntab)
			tx := TxnSpec{Kind: kinds[r.Intn(len(kinds))], Table: tb, Key: r.Range(1, meta.Rows[tb]), Commit: r.Bool(0.85)}
			if tx.Kind == "forupd" && r.Bool(0.4) {
				tx.Form = 1
				if prop == "C09" {
					tx.Form = r.Pick(1, 1, 2, 3, 4, 5)
				}
			}
			if tx.Kind == "forupd" && r.Bool(0.35) {
				tx.Noop = r.Pick(1, 2, 3, 4)
			}
			if tx.Kind == "inc" && r.Bool(0.4) {
				tx.Form = r.Pick(1, 2, 3, 4, 5, 6)
			}
			if tx.Kind == "ins" && r.Bool(0.3) {
				tx.Form = 1
			}
			if r3 := Sub(seed, fmt.Sprintf("c09-peek-%d-%d", p, j)); prop == "C09" && (tx.Kind == "inc" || tx.Kind == "selinc" || tx.Kind == "forupd") && r3.Bool(0.3) {
				tx.Peek = 1 + r3.Intn(6)
			}
			if r2 := Sub(seed, fmt.Sprintf("c09-inc2-%d-%d", p, j)); prop == "C09" && ntab == 2 && tx.Kind == "inc" && tx.Form == 0 && r2.Bool(0.6) {
				tx.Kind, tx.Table2 = "inc2", 1-tb
				tx.Key2 = r2.Range(1, meta.Rows[1-tb])
			}
			txs = append(txs, tx)
			stmts = append(stmts, txnProgram(j, tx, uniqKey(p, j))...)
		}
		meta.Txns = append(meta.Txns, txs)
		w := wtChoices[r.Intn(len(wtChoices))]
		sc.Procs = append(sc.Procs, ProcSpec{
			Program:      strings.Join(stmts, "\n"),
			CPU:          1,
			WaitTimeoutS: w.wt + float64(137*(p+1))*1e-9,
			RetryDelayNs: w.retry + int64(1009*(p+1)+2*p*p),
			Format:       "CSV",
			Quiet:        true,
		})
	}
	if rc := Sub(seed, "c09-create"); prop == "C09" && rc.Bool(0.25) {
		// the last transaction of two or more processes creates the same table
		n := 0
		for p := 0; p < nproc; p++ {
			if n >= 2 && rc.Bool(0.4) {
				continue
			}
			n++
			j := len(meta.Txns[p])
			tx := TxnSpec{Kind: "create", Table: -1, Commit: rc.Bool(0.85)}
			meta.Txns[p] = append(meta.Txns[p], tx)
			sc.Procs[p].Program += "\n" + strings.Join(txnProgram(j, tx, uniqKey(p, j)), "\n")
		}
	}
	sc.Knobs = Knobs{RowStride: r.Pick(1, 4, 64), Pool: "lifo"}
	sc.Sched = GenSched(seed, nproc, 120*nproc)
	sc.MaxSteps = 40000
	return sc, meta
}

// ---------------------------------------------------------------------------
// parsing what a process printed

type section struct {
	marker string // "B", "Q", "M", "E"
	txn    int
	sub    int
	step   int64
	body   []string // lines following the marker up to the next marker
}

func parseSections(res *ProcResult) []section {
	// stamps give the scheduler step of every write; markers are written by
	// PRINT in a single write
	var secs []section
	var cur *section
	for _, st := range res.Stamps {
		for _, line := range strings.Split(strings.TrimRight(st.Text, "\n"), "\n") {
			if strings.HasPrefix(line, "@S ") {
				continue // the shell replica announces every statement it executes: neither a marker nor a result
			}
			if strings.HasPrefix(line, "@") {
				f := strings.Fields(line[1:])
				s := section{marker: f[0], step: st.Step}
				if len(f) > 1 {
					parts := strings.SplitN(f[1], ".", 2)
					s.txn, _ = strconv.Atoi(parts[0])
					if len(parts) > 1 {
						s.sub, _ = strconv.Atoi(parts[1])
					}
				}
				secs = append(secs, s)
				cur = &secs[len(secs)-1]
			} else if cur != nil {
				cur.body = append(cur.body, line)
			}
		}
	}
	return secs
}

// parseCounterCSV turns "id,n\n1,0\n" lines into canonical "1=0,2=0".
func canonTable(lines []string) (string, bool) {
	if len(lines) == 0 {
		return "", false
	}
	if lines[0] != "id,n" {
		return strings.Join(lines, "|"), false
	}
	type kv struct{ k, v int }
	var rows []kv
	for _, l := range lines[1:] {
		if l == "" {
			continue
		}
		p := strings.Split(l, ",")
		if len(p) != 2 {
			return strings.Join(lines, "|"), false
		}
		k, e1 := strconv.Atoi(p[0])
		v, e2 := strconv.Atoi(p[1])
		if e1 != nil || e2 != nil {
			return strings.Join(lines, "|"), false
		}
		rows = append(rows, kv{k, v})
	}
	sort.Slice(rows, func(i, j int) bool { return rows[i].k < rows[j].k })
	var b strings.Builder
	for i, r := range rows {
		if i > 0 {
			b.WriteByte(',')
		}
		fmt.Fprintf(&b, "%d=%d", r.k, r.v)
	}
	return b.String(), true
}

func applyDelta(state string, kind string, key int) string {
	m := map[int]int{}
	var keys []int
	if state != "" {
		for _, kv := range strings.Split(state, ",") {
			p := strings.Split(kv, "=")
			k, _ := strconv.Atoi(p[0])
			v, _ := strconv.Atoi(p[1])
			m[k] = v
			keys = append(keys, k)
		}
	}
	switch kind {
	case "inc":
		if _, ok := m[key]; ok {
			m[key]++
		}
	case "ins":
		if _, ok := m[key]; !ok {
			keys = append(keys, key)
		}
		m[key] = 0 // duplicates cannot occur: keys are unique per transaction
	}
	sort.Ints(keys)
	var b strings.Builder
	for i, k := range keys {
		if i > 0 {
			b.WriteByte(',')
		}
		fmt.Fprintf(&b, "%d=%d", k, m[k])
	}
	return b.String()
}

// ---------------------------------------------------------------------------
// porcupine model: one table as a sequential register holding its canonical
// contents

type histIn struct {
	Kind   string // read | write
	Delta  string // inc | ins | ""
	Key    int
	Commit bool
	Who    string
}

type histOut struct {
	Started bool
	Obs     string // observed contents (read: as read; write: after own change)
	HasObs  bool
}

var tableModel = porcupine.Model{
	Init: func() interface{} { return "" },
	Step: func(state, input, output interface{}) (bool, interface{}) {
		st := state.(string)
		in := input.(histIn)
		out := output.(histOut)
		if !out.Started {
			return true, st
		}
		switch in.Kind {
		case "read":
			if out.HasObs && out.Obs != st {
				return false, st
			}
			return true, st
		default:
			post := applyDelta(st, in.Delta, in.Key)
			if out.HasObs && out.Obs != post {
				return false, st
			}
			if in.Commit {
				return true, post
			}
			return true, st
		}
	},
	Equal: func(a, b interface{}) bool { return a.(string) == b.(string) },
	DescribeOperation: func(input, output interface{}) string {
		in := input.(histIn)
		out := output.(histOut)
		return fmt.Sprintf("%s %s %s key=%d commit=%v -> started=%v obs=%q", in.Who, in.Kind, in.Delta, in.Key, in.Commit, out.Started, out.Obs)
	},
}

// ---------------------------------------------------------------------------
// hold-interval observer (oracle a)

type hold struct {
	proc int
	mode byte // 'R', 'U', 'C'
}

type holdObserver struct {
	holds                    map[string][]hold
	violations               []Violation
	acqStart                 map[int]time.Duration // per process: time its current acquisition attempt began
	blockedByLock, backedOff int
	untilEnd                 bool // the programs print @C before the statement that ends a transaction
}

func newHoldObserver() *holdObserver {
	return &holdObserver{holds: map[string][]hold{}, acqStart: map[int]time.Duration{}}
}

func (h *holdObserver) OnArrival(k *Kernel, g *G, a *arrival) {
	switch a.point {
	case "h.exists", "h.create.exists":
		h.acqStart[g.proc.idx] = k.Now()
	case "cf.retry.sleep":
		k.Stats.probe("lock-wait-retry")
	case "h.acquired":
		mode := a.arg[0]
		path := k.Norm(a.arg[2:])
		if mode == 'N' {
			return
		}
		for _, o := range h.holds[path] {
			if o.proc == g.proc.idx {
				continue
			}
			if mode == 'U' || mode == 'C' || o.mode == 'U' || o.mode == 'C' {
				h.violations = append(h.violations, Violation{
					Prop: "C09", Clause: "exclusive-hold-overlap",
					Sig:    fmt.Sprintf("hold-overlap:%c-vs-%c", mode, o.mode),
					Detail: fmt.Sprintf("p%d acquired %s in mode %c while p%d still holds it in mode %c (step %d)", g.proc.idx, path, mode, o.proc, o.mode, k.step.Load()),
				})
			}
		}
		h.holds[path] = append(h.holds[path], hold{proc: g.proc.idx, mode: mode})
		if len(h.holds[path]) > 1 {
			k.Stats.probe("shared-readers>1")
		}
	case "h.released":
		i := strings.Index(a.arg, " ")
		path := k.Norm(a.arg[i+1:])
		hs := h.holds[path]
		for j := range hs {
			if hs[j].proc == g.proc.idx {
				// a table held for update stays held until the transaction ends: COMMIT, ROLLBACK
				// (the marker @C precedes both) or the end of the program
				if (hs[j].mode == 'U' || hs[j].mode == 'C') && h.untilEnd && !g.proc.ending.Load() && g.proc.out != nil && !strings.HasPrefix(g.proc.out.lastMarker, "@C ") {
					h.violations = append(h.violations, Violation{
						Prop: "C09", Clause: "held-until-transaction-end",
						Sig:    "hold-released-before-transaction-end",
						Detail: fmt.Sprintf("p%d released %s, which it held in mode %c, in the middle of its transaction (%s; last marker %q, step %d): other processes can read and write the table before this transaction ends", g.proc.idx, path, hs[j].mode, a.arg[:i], g.proc.out.lastMarker, k.step.Load()),
					})
				}
				h.holds[path] = append(hs[:j:j], hs[j+1:]...)
				break
			}
		}
	}
}

// ---------------------------------------------------------------------------

type c09 struct{}

func init() { Register(c09{}) }

func (c09) Prop() string { return "C09" }

func (c09) Gen(seed uint64, tier string) *Scenario {
	sc, meta := genCounterScenario("C09", seed, tier, 4)
	sc.Meta = map[string]string{"workload": mustJSON(meta)}
	return sc
}

func (c09) Eval(t *testing.T, c *Case, dec func(int) *Decider) *Outcome {
	sc := c.Scenario
	var meta c09Meta
	mustUnJSON(sc.Meta["workload"], &meta)
	o := &Outcome{}
	ho := newHoldObserver()
	ho.untilEnd = true
	res, k := Execute(t, sc, dec(0), ho)
	o.Runs = 1
	o.addStats(res.Stats)
	o.LogHash, o.TraceHash = res.LogHash, res.TraceHash
	o.NonTrivial = res.Stats.Switches > len(sc.Procs)
	o.Trace = tail(res.Log, 400)
	judgeCounterRun(o, "C09", sc, &meta, res, k, ho)
	o.Sample = map[string]interface{}{"seed": c.Seed, "procs": programs(sc), "strategy": sc.Sched.Strategy, "steps": res.Stats.Steps, "outputs": outputs(res), "final": finalFiles(res)}
	return o
}

func programs(sc *Scenario) []string {
	var l []string
	for _, p := range sc.Procs {
		l = append(l, p.Program)
	}
	return l
}

func outputs(res *RunResult) []string {
	var l []string
	for _, p := range res.Procs {
		l = append(l, fmt.Sprintf("exit=%d err=%q out=%q", p.ExitCode, firstLine(p.ErrText), p.Stdout))
	}
	return l
}

func finalFiles(res *RunResult) map[string]string {
	m := map[string]string{}
	for n, f := range res.Final {
		m[n] = f.Data
	}
	return m
}

func tail(l []string, n int) []string {
	if len(l) > n {
		return append([]string{fmt.Sprintf("... %d earlier lines omitted", len(l)-n)}, l[len(l)-n:]...)
	}
	return l
}

// judgeCounterRun applies oracles (a)-(d) of DESIGN.md §3/C09.
func judgeCounterRun(o *Outcome, prop string, sc *Scenario, meta *c09Meta, res *RunResult, k *Kernel, ho *holdObserver) {
	// (d) liveness / hang
	// a process that gave up (timeout) or ended in any other way changes nothing:
	// no control file of it may survive the run
	for _, n := range res.Final.Names() {
		if IsControlFile(n) {
			o.viol(prop, "timeout-changes-nothing", "leftover-control-file:"+ctlKind(n), fmt.Sprintf("%s is left in the repository after every process has ended (endings: %s)", n, strings.Join(outputsShort(res), "; ")))
		}
	}
	if res.Hang != "" {
		o.viol(prop, "liveness", "hang", "run hung: "+res.Hang)
	}
	if res.LimitHit {
		o.viol(prop, "liveness", "step-limit", fmt.Sprintf("processes did not terminate within %d scheduler steps", sc.MaxSteps))
	}
	if res.BubbleErr != "" {
		o.viol(prop, "liveness", "bubble:"+firstLine(res.BubbleErr), res.BubbleErr)
	}
	if res.Hang != "" || res.LimitHit || res.BubbleErr != "" {
		return
	}
	// (a)
	o.Violations = append(o.Violations, ho.violations...)

	// (c) failure kind
	for i, p := range res.Procs {
		if p.Panic != "" {
			o.viol(prop, "failure-kind", "panic", fmt.Sprintf("p%d panicked: %s", i, p.Panic))
			continue
		}
		if p.ExitCode == 0 {
			continue
		}
		// "context deadline exceeded" is the same --wait-timeout deadline, noticed
		// between two steps of an acquisition instead of inside a retry loop
		if strings.Contains(p.ErrType, "FileLockTimeoutError") || (strings.Contains(p.ErrType, "ContextDone") && strings.Contains(p.ErrText, "deadline exceeded")) {
			o.Stats.probe("timeout-fired")
			wt := time.Duration(sc.Procs[i].WaitTimeoutS * float64(time.Second))
			if st, ok := ho.acqStart[i]; ok && p.EndTime-st < wt-time.Microsecond {
				o.viol(prop, "timeout-window", "timeout-early",
					fmt.Sprintf("p%d failed with a lock timeout %v after starting to wait, before its --wait-timeout %v elapsed", i, p.EndTime-st, wt))
			}
			continue
		}
		if txs := meta.Txns[i]; len(txs) > 0 && txs[len(txs)-1].Kind == "create" && (strings.Contains(p.ErrText, "already exists") || strings.Contains(p.ErrText, "file exists") || strings.Contains(p.ErrText, "failed to create lock file") || strings.Contains(p.ErrType, "Lock")) {
			// the table exists already, or another process is creating it right now
			o.Stats.probe("create-lost-the-race")
			continue
		}
		o.viol(prop, "failure-kind", "unexpected-error:"+p.ErrType+":"+errClass(p.ErrText),
			fmt.Sprintf("p%d failed with %s: %s (all tables exist for the whole run; only a lock timeout is a legitimate failure)", i, p.ErrType, firstLine(p.ErrText)))
	}

	// (b) history per table
	ntab := len(meta.Rows)
	var createWinners []int
	createSeen := false
	defer func() {
		if !createSeen {
			return
		}
		f, exists := res.Final["shared"]
		if !exists {
			f, exists = res.Final["shared.csv"]
		}
		switch {
		case len(createWinners) > 1:
			o.viol(prop, "history", "created-table-committed-twice", fmt.Sprintf("%d processes created and committed the same table (keys %v): one of the commits is lost", len(createWinners), createWinners))
		case len(createWinners) == 1 && !exists:
			o.viol(prop, "history", "committed-created-table-lost", fmt.Sprintf("a process created table shared, inserted key %d and committed, but the file does not exist after the run (endings: %s)", createWinners[0], strings.Join(outputsShort(res), "; ")))
		case len(createWinners) == 1:
			if want := fmt.Sprintf("id,n\n%d,0\n", createWinners[0]); f.Data != want {
				o.viol(prop, "history", "committed-created-table-changed", fmt.Sprintf("the created table holds %q, its creator committed %q", f.Data, want))
			} else {
				o.Stats.probe("created-table-survives")
			}
		case exists:
			o.viol(prop, "history", "uncommitted-created-table-left", "nobody committed the created table, yet it exists after the run: "+f.Data)
		}
	}()
	ops := make([][]porcupine.Operation, ntab)
	committed := make([]map[string]int, ntab) // "inc:k" / "ins:k" -> count
	for i := range committed {
		committed[i] = map[string]int{}
	}
	for pi, p := range res.Procs {
		secs := parseSections(p)
		txs := meta.Txns[pi]
		for j, tx := range txs {
			var b, m, e *section
			q := map[int]*section{}
			for si := range secs {
				s := &secs[si]
				if s.txn != j {
					continue
				}
				switch s.marker {
				case "B":
					b = s
				case "M":
					m = s
				case "E":
					e = s
				case "Q":
					q[s.sub] = s
				}
			}
			if b == nil {
				continue // never started
			}
			if tx.Kind == "create" {
				if e != nil && tx.Commit {
					createWinners = append(createWinners, uniqKey(pi, j))
				}
				createSeen = true
				continue
			}
			ret := p.EndStep
			if e != nil {
				ret = e.step
			}
			who := fmt.Sprintf("p%d.t%d", pi, j)
			obs := func(s *section) (string, bool) {
				if s == nil || len(s.body) == 0 {
					return "", false
				}
				c, ok := canonTable(s.body)
				if !ok {
					o.viol(prop, "history", "garbled-result", fmt.Sprintf("%s printed an unparsable result set: %q", who, c))
				}
				return c, true
			}
			switch tx.Kind {
			case "read":
				ob, has := obs(q[1])
				ops[tx.Table] = append(ops[tx.Table], porcupine.Operation{ClientId: pi,
					Input: histIn{Kind: "read", Who: who}, Call: 2 * b.step,
					Output: histOut{Started: has, Obs: ob, HasObs: has}, Return: 2*ret + 1})
			case "selinc":
				ob, has := obs(q[1])
				r1 := ret
				if m != nil {
					r1 = m.step
				}
				ops[tx.Table] = append(ops[tx.Table], porcupine.Operation{ClientId: pi,
					Input: histIn{Kind: "read", Who: who + ".sel"}, Call: 2 * b.step,
					Output: histOut{Started: has, Obs: ob, HasObs: has}, Return: 2*r1 + 1})
				if m != nil {
					ob2, has2 := obs(q[2])
					ops[tx.Table] = append(ops[tx.Table], porcupine.Operation{ClientId: pi,
						Input: histIn{Kind: "write", Delta: "inc", Key: tx.Key, Commit: tx.Commit && e != nil, Who: who},
						Call:  2 * m.step, Output: histOut{Started: has2, Obs: ob2, HasObs: has2}, Return: 2*ret + 1})
					if tx.Commit && e != nil {
						committed[tx.Table][fmt.Sprintf("inc:%d", tx.Key)]++
					}
				}
			case "inc2":
				// both tables change, or neither
				done := tx.Commit && e != nil
				ob2, has2 := obs(q[2])
				ops[tx.Table] = append(ops[tx.Table], porcupine.Operation{ClientId: pi,
					Input: histIn{Kind: "write", Delta: "inc", Key: tx.Key, Commit: done, Who: who + ".a"},
					Call:  2 * b.step, Output: histOut{Started: has2, Obs: ob2, HasObs: has2}, Return: 2*ret + 1})
				if m != nil {
					ob3, has3 := obs(q[3])
					ops[tx.Table2] = append(ops[tx.Table2], porcupine.Operation{ClientId: pi,
						Input: histIn{Kind: "write", Delta: "inc", Key: tx.Key2, Commit: done, Who: who + ".b"},
						Call:  2 * m.step, Output: histOut{Started: has3, Obs: ob3, HasObs: has3}, Return: 2*ret + 1})
				}
				if done {
					committed[tx.Table]["inc:"+strconv.Itoa(tx.Key)]++
					committed[tx.Table2]["inc:"+strconv.Itoa(tx.Key2)]++
					o.Stats.probe("two-table-transaction-committed")
				} else if e == nil {
					o.Stats.probe("two-table-transaction-gave-up")
				}
			case "inc", "forupd", "ins":
				delta, key := "inc", tx.Key
				if tx.Kind == "ins" {
					delta, key = "ins", uniqKey(pi, j)
				}
				ob2, has2 := obs(q[2])
				if tx.Kind == "forupd" {
					// the FOR UPDATE select shows the state before the own change
					if ob1, has1 := obs(q[1]); has1 && has2 && applyDelta(ob1, delta, key) != ob2 {
						o.viol(prop, "history", "own-change-not-visible", fmt.Sprintf("%s: read %q under FOR UPDATE, changed it, then read %q", who, ob1, ob2))
					}
				}
				ops[tx.Table] = append(ops[tx.Table], porcupine.Operation{ClientId: pi,
					Input: histIn{Kind: "write", Delta: delta, Key: key, Commit: tx.Commit && e != nil, Who: who},
					Call:  2 * b.step, Output: histOut{Started: has2, Obs: ob2, HasObs: has2}, Return: 2*ret + 1})
				if tx.Commit && e != nil {
					committed[tx.Table][fmt.Sprintf("%s:%d", delta, key)]++
				}
			}
		}
	}
	for ti := 0; ti < ntab; ti++ {
		init, _ := canonTable(strings.Split(strings.TrimRight(counterTable(meta.Rows[ti]), "\n"), "\n"))
		model := tableModel
		model.Init = func() interface{} { return init }
		if len(ops[ti]) > 0 {
			r, info := porcupine.CheckOperationsVerbose(model, ops[ti], 20*time.Second)
			_ = info
			if r == porcupine.Illegal {
				var d []string
				for _, op := range ops[ti] {
					d = append(d, fmt.Sprintf("[%d,%d] %s", op.Call, op.Return, model.DescribeOperation(op.Input, op.Output)))
				}
				o.viol(prop, "history", "not-linearizable",
					fmt.Sprintf("history of table %s is not linearizable w.r.t. a sequential table (lost or dirty read/update):\n  %s", tableName(ti), strings.Join(d, "\n  ")))
			}
		}
		// final file == initial + all committed changes, nothing else
		want := init
		var keys []string
		for kk := range committed[ti] {
			keys = append(keys, kk)
		}
		sort.Strings(keys)
		for _, kk := range keys {
			p := strings.Split(kk, ":")
			key, _ := strconv.Atoi(p[1])
			for n := 0; n < committed[ti][kk]; n++ {
				want = applyDelta(want, p[0], key)
			}
		}
		f, ok := res.Final[tableName(ti)+".csv"]
		if !ok {
			o.viol(prop, "final-state", "table-missing", fmt.Sprintf("table %s does not exist after the run", tableName(ti)))
			continue
		}
		got, okc := canonTable(strings.Split(strings.TrimRight(f.Data, "\n"), "\n"))
		if !okc || got != want {
			o.viol(prop, "final-state", "lost-or-phantom-update",
				fmt.Sprintf("table %s ends as %q but initial contents plus every committed change give %q", tableName(ti), got, want))
		}
	}
}

func errClass(s string) string {
	s = firstLine(s)
	// strip paths, numbers and quoted names so that the class is stable
	var b strings.Builder
	inq := false
	for _, c := range s {
		switch {
		case c == '"':
			inq = !inq
		case inq:
		case c >= '0' && c <= '9':
		default:
			b.WriteRune(c)
		}
	}
	r := strings.Join(strings.Fields(b.String()), " ")
	r = strings.ReplaceAll(r, "$R/", "")
	for _, w := range strings.Fields(r) {
		if strings.Contains(w, ".csv") || strings.Contains(w, "/") {
			r = strings.ReplaceAll(r, w, "<path>")
		}
	}
	if len(r) > 80 {
		r = r[:80]
	}
	return r
}
