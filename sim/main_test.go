package sim

import (
	"fmt"
	"os"
	"strconv"
	"testing"
	"time"
)

func TestMain(m *testing.M) {
	setupBase()
	code := m.Run()
	cleanupBase()
	os.Exit(code)
}

func envInt(name string, def int) int {
	if s := os.Getenv(name); s != "" {
		if v, err := strconv.Atoi(s); err == nil {
			return v
		}
	}
	return def
}

func envU64(name string, def uint64) uint64 {
	if s := os.Getenv(name); s != "" {
		if v, err := strconv.ParseUint(s, 10, 64); err == nil {
			return v
		}
		if v, err := strconv.ParseInt(s, 10, 64); err == nil {
			return uint64(v)
		}
	}
	return def
}

// TestSim is the single entry point used by /verif/vcheck. It never fails the
// test on a property violation: results go to VERIF_OUT as JSON and the driver
// decides. A failing test means infrastructure trouble.
func TestSim(t *testing.T) {
	prop := os.Getenv("VERIF_PROP")
	if prop == "" {
		t.Skip("VERIF_PROP not set")
	}
	ch := registry[prop]
	if ch == nil {
		t.Fatalf("no checker for %s", prop)
	}
	out := os.Getenv("VERIF_OUT")
	if out == "" {
		t.Fatal("VERIF_OUT not set")
	}
	tier := os.Getenv("VERIF_TIER")
	if tier == "" {
		tier = "quick"
	}
	switch mode := os.Getenv("VERIF_MODE"); mode {
	case "", "batch":
		br := RunBatch(t, ch, tier, envU64("VERIF_BATCH_SEED", 1), envInt("VERIF_FROM", 0), envInt("VERIF_TO", 100),
			time.Duration(envInt("VERIF_BUDGET_S", 60))*time.Second, out)
		if err := writeJSON(fmt.Sprintf("%s/batch-%s-%d.json", out, prop, envInt("VERIF_WORKER", 0)), br); err != nil {
			t.Fatal(err)
		}
	case "replay":
		c, err := readCase(os.Getenv("VERIF_CASE"))
		if err != nil {
			t.Fatal(err)
		}
		o := EvalReplay(t, ch, c)
		rr := ReplayResult{LogHash: o.LogHash, Violations: o.Violations, Trace: o.Trace}
		if c.Violation != nil {
			rr.Reproduced = hasSig(o, c.Violation.Sig) != nil
			rr.SameLog = c.LogHash == "" || c.LogHash == o.LogHash
		}
		if err := writeJSON(out+"/replay.json", &rr); err != nil {
			t.Fatal(err)
		}
	case "hashes":
		// determinism self-test: evaluate a range of run seeds and write their hashes
		type hrec struct {
			Seed  uint64 `json:"seed"`
			Trace string `json:"trace"`
			Log   string `json:"log"`
		}
		var recs []hrec
		bs := envU64("VERIF_BATCH_SEED", 1)
		for i := envInt("VERIF_FROM", 0); i < envInt("VERIF_TO", 100); i++ {
			seed := RunSeed(bs, i)
			_, o := EvalFresh(t, ch, seed, tier)
			recs = append(recs, hrec{Seed: seed, Trace: o.TraceHash, Log: o.LogHash})
		}
		if err := writeJSON(out+"/hashes.json", recs); err != nil {
			t.Fatal(err)
		}
	case "dettest":
		// debugging aid: one run seed, recorded once and replayed several times
		seed := envU64("VERIF_ONE_SEED", 1)
		c, o := EvalFresh(t, ch, seed, tier)
		fmt.Printf("record trace=%s log=%s runs=%d\n", o.TraceHash, o.LogHash, o.Runs)
		fmt.Printf("scenario meta=%v cancels=%v faults=%v torn=%v rmrepo=%d knobs=%+v sched=%+v procs=%+v\n", c.Scenario.Meta, c.Scenario.Cancels, c.Scenario.Faults, c.Scenario.Torn, c.Scenario.RmRepoAt, c.Scenario.Knobs, c.Scenario.Sched, c.Scenario.Procs)
		for i := 0; i < envInt("VERIF_REPEATS", 5); i++ {
			o2 := EvalReplay(t, ch, c)
			fmt.Printf("replay trace=%s log=%s same=%v\n", o2.TraceHash, o2.LogHash, o2.TraceHash == o.TraceHash)
		}
	case "minimize":
		c, err := readCase(os.Getenv("VERIF_CASE"))
		if err != nil {
			t.Fatal(err)
		}
		mc := Minimize(t, ch, c, time.Duration(envInt("VERIF_BUDGET_S", 60))*time.Second)
		if err := writeJSON(out+"/minimized.json", mc); err != nil {
			t.Fatal(err)
		}
	default:
		t.Fatalf("unknown mode %s", mode)
	}
}

type ReplayResult struct {
	Reproduced bool        `json:"reproduced"`
	SameLog    bool        `json:"same_log"`
	LogHash    string      `json:"log_hash"`
	Violations []Violation `json:"violations"`
	Trace      []string    `json:"trace,omitempty"`
}
