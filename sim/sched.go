package sim

import "strings"

// Decider turns scheduling choices into a recorded vector, or replays one.
type Decider struct {
	rng    *Rng
	Vec    []int
	replay bool
	pos    int
	Last   int
}

func NewRecorder(seed uint64) *Decider { return &Decider{rng: NewRng(seed)} }

func NewReplayer(vec []int) *Decider { return &Decider{Vec: vec, replay: true} }

// Choose returns an index in [0,n). In record mode strat computes it from the
// PRNG; in replay mode the recorded value is used (modulo n); after the vector
// is exhausted the policy is: keep running what ran last (index passed back by
// the strategy with a nil rng), else the lowest index.
func (d *Decider) Choose(n int, strat func(r *Rng) int) int {
	var c int
	if d.replay {
		if d.pos < len(d.Vec) {
			c = d.Vec[d.pos] % n
			if c < 0 {
				c = 0
			}
		} else {
			c = strat(nil)
		}
		d.pos++
		return c
	}
	c = strat(d.rng)
	if c < 0 || c >= n {
		c = 0
	}
	d.Vec = append(d.Vec, c)
	return c
}

// Strategy implements the scheduling strategies of DESIGN.md §2.1.
type Strategy struct {
	spec     SchedSpec
	prioRng  *Rng
	pctHit   int
	delayCnt int
}

func NewStrategy(spec SchedSpec, nprocs int) *Strategy {
	return &Strategy{spec: spec, prioRng: Sub(spec.Seed, "prio")}
}

func (s *Strategy) newPrio(id int) int {
	return int(s.prioRng.Uint64()>>40) + 1000
}

func indexOfLast(k *Kernel) int {
	for i, g := range k.parked {
		if g == k.lastRun {
			return i
		}
	}
	return -1
}

// choose picks an option index: 0..len(parked)-1 resumes that goroutine,
// len(parked) (only when timeOK) lets simulated time advance. Goroutines that
// wait for a Go mutex held by a parked goroutine are only chosen when nothing
// else can run (otherwise a strict-priority strategy would spin on them).
func (s *Strategy) choose(r *Rng, k *Kernel, timeOK bool) int {
	n := len(k.parked)
	var elig []int
	for i, g := range k.parked {
		if g.cur != nil && strings.HasPrefix(g.cur.point, "mutex.") {
			continue
		}
		elig = append(elig, i)
	}
	if len(elig) == 0 && timeOK {
		// only goroutines that wait for a Go mutex can run, and a timer is pending: whoever holds the mutex is
		// asleep (a lock wait inside a table load holds the transaction's loading mutex). Spinning on the
		// waiters would keep the clock from ever moving - a livelock of the simulator, not of csvq (seen once in
		// 255 000 thorough evaluations of C19 as a step-limit report: a false alarm, corrected here).
		return n
	}
	if len(elig) == 0 {
		for i := range k.parked {
			elig = append(elig, i)
		}
	}
	isElig := func(i int) bool {
		for _, e := range elig {
			if e == i {
				return true
			}
		}
		return false
	}
	if r == nil {
		// replay tail policy
		if i := indexOfLast(k); i >= 0 && isElig(i) {
			return i
		}
		return elig[0]
	}
	if timeOK && r.Bool(s.spec.PTime) {
		return n
	}
	switch s.spec.Strategy {
	case "sticky":
		if i := indexOfLast(k); i >= 0 && isElig(i) && r.Bool(s.spec.Sticky) {
			return i
		}
		return elig[r.Intn(len(elig))]
	case "pct":
		step := int(k.step.Load())
		for _, cp := range s.spec.PCTPoints {
			if cp == step && k.lastRun != nil {
				s.pctHit++
				k.lastRun.prio = -s.pctHit
			}
		}
		best := elig[0]
		for _, i := range elig {
			if k.parked[i].prio > k.parked[best].prio {
				best = i
			}
		}
		return best
	case "delay":
		// hold back DelayProc whenever it sits at DelayPoint, until the
		// others cannot run or DelaySteps other steps were made
		var cand []int
		held := -1
		for _, i := range elig {
			g := k.parked[i]
			if g.proc.idx == s.spec.DelayProc && g.cur != nil && g.cur.point == s.spec.DelayPoint && s.delayCnt < s.spec.DelaySteps {
				held = i
				continue
			}
			cand = append(cand, i)
		}
		if held >= 0 {
			if len(cand) == 0 {
				if timeOK && r.Bool(0.5) {
					return n
				}
				s.delayCnt = 0
				return held
			}
			s.delayCnt++
			k.Stats.probe("delay-held")
		} else {
			s.delayCnt = 0
		}
		if i := indexOfLast(k); i >= 0 && r.Bool(s.spec.Sticky) {
			for _, c := range cand {
				if c == i {
					return i
				}
			}
		}
		return cand[r.Intn(len(cand))]
	default:
		return elig[r.Intn(len(elig))]
	}
}

// AllPoints lists the scheduling points a delay strategy may target.
var DelayPoints = []string{
	"cf.lock.check", "cf.lock.create", "cf.lock.recheck", "cf.rlock.check", "cf.rlock.createlock",
	"cf.rlock.create", "cf.close.unlock", "cf.close.stat", "cf.close.remove", "cf.temp.create",
	"h.exists", "h.open.read", "h.open.update", "h.opened", "h.release.unlock", "h.commit.closetemp",
	"h.commit.remove", "h.commit.rename", "tx.commit.truncate", "tx.commit.write", "h.acquired", "h.released",
	"tx.commit.swap", "tx.commit.done",
}

// GenSched draws a scheduling strategy for a run.
func GenSched(seed uint64, nprocs int, estSteps int) SchedSpec {
	r := Sub(seed, "sched")
	sp := SchedSpec{Seed: hashLabel(seed, "schedseed")}
	sp.PTime = []float64{0.0, 0.02, 0.1, 0.3}[r.Intn(4)]
	switch r.Intn(10) {
	case 0, 1:
		sp.Strategy = "uniform"
	case 2, 3, 4:
		sp.Strategy = "sticky"
		sp.Sticky = []float64{0.5, 0.8, 0.95}[r.Intn(3)]
	case 5, 6:
		sp.Strategy = "pct"
		sp.PCTDepth = 1 + r.Intn(3)
		for i := 0; i < sp.PCTDepth; i++ {
			sp.PCTPoints = append(sp.PCTPoints, 1+r.Intn(estSteps))
		}
	default:
		sp.Strategy = "delay"
		sp.DelayProc = r.Intn(nprocs)
		sp.DelayPoint = DelayPoints[r.Intn(len(DelayPoints))]
		sp.DelaySteps = []int{3, 8, 20, 60, 1000}[r.Intn(5)]
		sp.Sticky = []float64{0.3, 0.8}[r.Intn(2)]
	}
	return sp
}
