package sim

import (
	"bytes"
	"encoding/json"
	"fmt"
	"os"
	"os/exec"
	"path/filepath"
	"sort"
	"strings"
	"syscall"
	"testing"
	"time"
)

// C11: no surviving run leaves lock/temp/half-created files; reads modify nothing.

type c11Meta struct {
	Kind      string      `json:"kind"` // mixed | readonly
	Txns      [][]TxnSpec `json:"txns"`
	Rows      []int       `json:"rows"`
	Extras    []string    `json:"extras"` // per process: trailing statements
	Prefixes  []string    `json:"prefixes"`
	Injected  bool        `json:"injected"`
	OutExists []string    `json:"out_exists,omitempty"` // --out files that were there (empty) before the run
	Stale     []string    `json:"stale,omitempty"`      // control files that were there before any process started (left by a killed process)
}

type c11 struct{}

func init() { Register(c11{}) }

func (c11) Prop() string { return "C11" }

var faultPoints = []string{
	"cf.lock.create", "cf.rlock.createlock", "cf.rlock.create", "cf.temp.create", "h.open.read", "h.open.update",
	"h.create.file", "h.commit.rename", "tx.commit.truncate", "tx.commit.write", "tx.commit.linebreak",
}

var faultErrnos = []string{"EACCES", "EIO", "ENOSPC", "EMFILE", "EROFS", "ENOENT"}

func renderC11(sc *Scenario, m *c11Meta) {
	for p := range sc.Procs {
		var stmts []string
		if m.Prefixes[p] != "" {
			stmts = append(stmts, strings.Split(m.Prefixes[p], "\n")...)
		}
		for j, tx := range m.Txns[p] {
			stmts = append(stmts, txnProgram(j, tx, uniqKey(p, j))...)
		}
		if m.Extras[p] != "" {
			stmts = append(stmts, strings.Split(m.Extras[p], "\n")...)
		}
		sc.Procs[p].Program = strings.Join(stmts, "\n")
	}
	sc.Meta = map[string]string{"workload": mustJSON(m)}
}

func (c11) Gen(seed uint64, tier string) *Scenario {
	r := Sub(seed, "workload")
	m := &c11Meta{Kind: "mixed"}
	if r.Bool(0.25) {
		m.Kind = "readonly"
	}
	sc := &Scenario{Prop: "C11"}
	if rc := Sub(seed, "c11-chdir"); rc.Bool(0.05) {
		// one process without --repository whose program changes the working directory
		// and prints nothing: the (relative) --out file must be gone afterwards and no
		// other file may be touched
		m.Kind = "readonly"
		m.Rows = []int{2}
		sc.Files = []FileSpec{{Name: "t0.csv", Content: counterTable(2)}, {Name: "sub", Dir: true}, {Name: "sub/out0.txt", Content: "keep\n"}, {Name: "sub/t0.csv", Content: counterTable(3)}, {Name: "out1.txt", Content: "keep too\n"}}
		m.Txns = [][]TxnSpec{nil}
		m.Prefixes = []string{"VAR @c := (SELECT COUNT(*) FROM t0);"}
		m.Extras = []string{"CHDIR `sub`;\nVAR @d := (SELECT COUNT(*) FROM t0);" + rc.PickS("", "", "\nEXIT 2;", "\nSELECT * FROM no_such_table;", "\nCHDIR `..`;\nVAR @e := (SELECT MAX(n) FROM t0);", "\nSELECT 1 / 0 FROM t0 WHERE FALSE;")}
		sc.Procs = []ProcSpec{{OutFile: rc.PickS("out0.txt", "out0.txt", "./out0.txt", "sub/../out0.txt"), CPU: 1, WaitTimeoutS: 10.0000001, RetryDelayNs: 10001009, Format: "CSV", Quiet: true}}
		renderC11(sc, m)
		sc.Knobs = Knobs{RowStride: 1, Pool: "lifo", RelRepo: true}
		sc.Sched = GenSched(seed, 1, 150)
		sc.MaxSteps = 40000
		return sc
	}
	ntab := r.Pick(1, 2, 2, 3)
	for i := 0; i < ntab; i++ {
		rows := r.Range(1, 3)
		if r.Bool(0.15) {
			rows = r.Range(20, 60)
		}
		m.Rows = append(m.Rows, rows)
		sc.Files = append(sc.Files, FileSpec{Name: tableName(i) + ".csv", Content: counterTable(rows)})
	}
	// a table whose third record has too many fields: loading it fails half way
	sc.Files = append(sc.Files, FileSpec{Name: "bad.csv", Content: "a,b\n1,2\n3,4\n5,6,7\n8,9\n"})
	nproc := r.Range(1, 3)
	kinds := []string{"inc", "inc", "selinc", "ins", "read", "forupd"}
	for p := 0; p < nproc; p++ {
		var txs []TxnSpec
		ntx := r.Range(1, 3)
		for j := 0; j < ntx; j++ {
			tb := r.Intn(ntab)
			k := kinds[r.Intn(len(kinds))]
			if m.Kind == "readonly" {
				k = "read"
			}
			txs = append(txs, TxnSpec{Kind: k, Table: tb, Key: r.Range(1, m.Rows[tb]), Commit: r.Bool(0.8)})
		}
		m.Txns = append(m.Txns, txs)
		prefix, extra := "", ""
		if m.Kind == "mixed" {
			if r.Bool(0.35) {
				prefix = fmt.Sprintf("CREATE TABLE c%d (id, n);\nINSERT INTO c%d VALUES (1, 1);", p, p)
				if r.Bool(0.5) {
					prefix += "\nCOMMIT;"
				}
			}
			switch r.Intn(17) {
			case 14:
				// the run ends by EXIT (code 0) while tables are held for update and nothing is uncommitted
				extra = fmt.Sprintf("SELECT COUNT(*) FROM %s FOR UPDATE;\n%s", tableName(r.Intn(ntab)), r.PickS("EXIT;", "EXIT 0;", "IF TRUE THEN EXIT; END IF;"))
			case 15:
				extra = fmt.Sprintf("UPDATE %s SET n = n + 1 WHERE id = 99999;\nDELETE FROM %s WHERE id = 99999;\n%s", tableName(r.Intn(ntab)), tableName(r.Intn(ntab)), r.PickS("EXIT;", "EXIT 0;", "WHILE TRUE DO EXIT; END WHILE;"))
			case 16:
				extra = fmt.Sprintf("COMMIT;\nALTER TABLE %s SET HEADER TO TRUE;\nSELECT id FROM %s FOR UPDATE;\nEXIT;", tableName(r.Intn(ntab)), tableName(r.Intn(ntab)))
			case 12:
				// a second handler for the same container key (names differing in case only)
				tn := tableName(r.Intn(ntab))
				extra = fmt.Sprintf("UPDATE %s SET n = n + 1;\nCREATE TABLE `%s.csv` (a, b);", tn, strings.ToUpper(tn))
			case 13:
				extra = fmt.Sprintf("CREATE TABLE `k%d.csv` (a);\nINSERT INTO `k%d.csv` VALUES (1);\nCREATE TABLE `K%d.CSV` (a);", p, p, p)
			case 8:
				extra = fmt.Sprintf("UPDATE %s SET n = n + 7;\nIF TRUE THEN WHILE TRUE DO EXIT 4; END WHILE; END IF;", tableName(r.Intn(ntab)))
			case 9:
				extra = fmt.Sprintf("DECLARE ferr FUNCTION (@a) AS BEGIN IF @a > 0 THEN TRIGGER ERROR 9 'in function'; END IF; RETURN @a; END;\nCREATE TABLE e%d (a);\nUPDATE %s SET n = ferr(id);", p, tableName(r.Intn(ntab)))
			case 11:
				// every table held for update (and one created) when the run ends
				var l []string
				for ti := 0; ti < ntab; ti++ {
					l = append(l, fmt.Sprintf("SELECT COUNT(*) FROM %s FOR UPDATE;", tableName(ti)))
				}
				l = append(l, fmt.Sprintf("CREATE TABLE h%d (a);", p), r.PickS("EXIT 2;", "SELECT * FROM no_such_table;", "ROLLBACK;", "COMMIT;", fmt.Sprintf("UPDATE %s SET n = n + 1;", tableName(0))))
				extra = strings.Join(l, "\n")
			case 10:
				extra = fmt.Sprintf("CREATE TABLE g%d (a, b);\nINSERT INTO g%d VALUES (1, 2);\nCOMMIT;\nINSERT INTO g%d VALUES (3, 4);\nSELECT * FROM no_such_table;", p, p, p)
			case 0:
				extra = "SELECT id FROM no_such_table;"
			case 1:
				extra = fmt.Sprintf("UPDATE %s SET n = 1 / 0;", tableName(r.Intn(ntab)))
			case 2:
				extra = fmt.Sprintf("UPDATE %s SET n = n + 100;\nEXIT 3;", tableName(r.Intn(ntab)))
			case 3:
				extra = fmt.Sprintf("CREATE TABLE d%d (a);\nINSERT INTO d%d VALUES (1);\nEXIT;", p, p)
			case 4:
				extra = fmt.Sprintf("CREATE TABLE d%d (a);\nSELECT a FROM no_such_table_either;", p)
			case 5:
				extra = fmt.Sprintf("INSERT INTO %s VALUES (1, 2, 3);", tableName(r.Intn(ntab)))
			}
		} else {
			switch r.Intn(11) {
			case 9:
				extra = fmt.Sprintf("SELECT COUNT(*) FROM %s;\nSHOW TABLES;\nSHOW FIELDS FROM %s;", tableName(0), tableName(0))
			case 10:
				extra = fmt.Sprintf("PREPARE ps FROM 'SELECT id FROM %s WHERE id = ?';\nEXECUTE ps USING 1;\nEXECUTE 'SELECT COUNT(*) FROM %s';", tableName(0), tableName(0))
			case 7:
				// a load that fails in the middle of the file
				extra = fmt.Sprintf("SELECT COUNT(*) FROM %s;\nSELECT * FROM bad;", tableName(0))
			case 8:
				extra = fmt.Sprintf("SELECT a.id FROM %s a JOIN bad b ON a.id = b.a;", tableName(0))
			case 4:
				extra = fmt.Sprintf("SELECT a.id, b.n FROM %s a JOIN `%s.csv` b ON a.id = b.id;\nSELECT x.id FROM %s x WHERE x.id IN (SELECT id FROM %s);", tableName(0), tableName(0), tableName(0), tableName(0))
			case 5:
				extra = fmt.Sprintf("DECLARE cur CURSOR FOR SELECT id FROM %s; OPEN cur; VAR @c; FETCH cur INTO @c; CLOSE cur;\nSELECT COUNT(*) FROM %s FOR UPDATE;", tableName(0), tableName(0))
			case 6:
				extra = fmt.Sprintf("DECLARE tv VIEW AS SELECT id, n FROM %s;\nUPDATE tv SET n = n + 1;\nSELECT * FROM tv;\nCOMMIT;", tableName(0))
			case 0:
				extra = fmt.Sprintf("SELECT a.id, b.n FROM %s a JOIN %s b ON a.id = b.id;", tableName(0), tableName(ntab-1))
			case 1:
				extra = fmt.Sprintf("SELECT COUNT(*) FROM %s;\nSELECT id FROM no_such_table;", tableName(0))
			case 2:
				extra = fmt.Sprintf("SELECT n / 0 FROM %s;", tableName(0))
			}
		}
		if rx := Sub(seed, fmt.Sprintf("c11-cross-%d", p)); m.Kind == "mixed" && p > 0 && nproc > 1 && rx.Bool(0.2) {
			// this process works on a table that process 0 is creating (and may roll back
			// while this one waits for its lock): the table can vanish under the waiter
			if !strings.Contains(m.Prefixes[0], "CREATE TABLE c0") {
				m.Prefixes[0] = "CREATE TABLE c0 (id, n);\nINSERT INTO c0 VALUES (1, 1);" + rx.PickS("", "", "\nCOMMIT;")
			}
			cross := rx.PickS("UPDATE c0 SET n = n + 1;", "SELECT COUNT(*) FROM c0 FOR UPDATE;", "INSERT INTO c0 VALUES (9, 9);", "SELECT * FROM c0;", "DELETE FROM c0 WHERE id = 1;", "ALTER TABLE c0 ADD z DEFAULT 1;")
			if extra == "" {
				extra = cross
			} else {
				extra = cross + "\n" + extra
			}
		}
		m.Prefixes = append(m.Prefixes, prefix)
		m.Extras = append(m.Extras, extra)
		w := wtChoices[r.Intn(len(wtChoices))]
		outFile := ""
		if r.Bool(0.15) {
			outFile = fmt.Sprintf("out%d.txt", p)
			if ro := Sub(seed, fmt.Sprintf("c11-out-exists-%d", p)); ro.Bool(0.25) {
				// the --out path names a file that is already there (empty, e.g. made by mktemp): csvq refuses
				// it or uses it - it does not take it away
				sc.Files = append(sc.Files, FileSpec{Name: outFile, Content: ""})
				m.OutExists = append(m.OutExists, outFile)
			}
		}
		sc.Procs = append(sc.Procs, ProcSpec{OutFile: outFile, CPU: r.Pick(1, 1, 1, 2, 4), WaitTimeoutS: w.wt + float64(137*(p+1))*1e-9, RetryDelayNs: w.retry + int64(1009*(p+1)+2*p*p), Format: "CSV", Quiet: true})
	}
	if rs := Sub(seed, "c11-stale"); rs.Bool(0.12) {
		// control files that a killed process left behind ("other than an uncatchable kill" is about the run
		// that ends, not about what it finds): whoever needs the table gives up after its wait timeout,
		// changes nothing, and leaves nothing of its own - in particular not the table it wanted to create
		name := ""
		switch k := rs.Intn(5); {
		case k <= 1 && m.Kind == "mixed":
			name = ".c0.lock"
			if !strings.Contains(m.Prefixes[0], "CREATE TABLE c0") {
				m.Prefixes[0] = "CREATE TABLE c0 (id, n);\nINSERT INTO c0 VALUES (1, 1);" + rs.PickS("", "\nCOMMIT;")
			}
		case k == 2:
			name = "." + tableName(0) + ".csv.stale-owner.rlock"
		case k == 3:
			name = "." + tableName(0) + ".csv.temp"
		default:
			name = "." + tableName(0) + ".csv.lock"
		}
		sc.Files = append(sc.Files, FileSpec{Name: name, Content: ""})
		m.Stale = append(m.Stale, name)
	}
	renderC11(sc, m)
	sc.Knobs = Knobs{RowStride: r.Pick(1, 2, 8), Pool: "lifo", MinPerCore: r.Pick(0, 5, 10)}
	sc.Sched = GenSched(seed, nproc, 150*nproc)
	sc.MaxSteps = 40000
	return sc
}

func (c11) Shrinks(c *Case) []*Case {
	var meta c11Meta
	mustUnJSON(c.Scenario.Meta["workload"], &meta)
	var out []*Case
	mk := func(f func(m *c11Meta)) {
		cand := cloneCase(c)
		var m c11Meta
		mustUnJSON(cand.Scenario.Meta["workload"], &m)
		f(&m)
		renderC11(cand.Scenario, &m)
		out = append(out, cand)
	}
	for p := range meta.Txns {
		p := p
		for j := len(meta.Txns[p]) - 1; j >= 0; j-- {
			j := j
			mk(func(m *c11Meta) { m.Txns[p] = append(m.Txns[p][:j:j], m.Txns[p][j+1:]...) })
		}
		if meta.Extras[p] != "" {
			mk(func(m *c11Meta) { m.Extras[p] = "" })
		}
		if meta.Prefixes[p] != "" {
			mk(func(m *c11Meta) { m.Prefixes[p] = "" })
		}
	}
	return out
}

type fileID struct {
	ino   uint64
	mtime int64
	data  string
}

func statFiles(dir string, files []FileSpec) map[string]fileID {
	m := map[string]fileID{}
	for _, f := range files {
		p := filepath.Join(dir, f.Name)
		st, err := os.Stat(p)
		if err != nil {
			continue
		}
		id := fileID{mtime: st.ModTime().UnixNano()}
		if s, ok := st.Sys().(*syscall.Stat_t); ok {
			id.ino = s.Ino
		}
		b, _ := os.ReadFile(p)
		id.data = string(b)
		m[f.Name] = id
	}
	return m
}

// leftoverObserver tracks created tables and completed commits, and stats the
// files when the first process starts / after the last one ended.
type leftoverObserver struct {
	files    []FileSpec
	before   map[string]fileID
	after    map[string]fileID
	created  map[string]int   // path -> creating process
	commitOK map[string]bool  // path -> the table was committed by its transaction
	inCommit map[int]bool     // process is in the swap phase of a COMMIT
	early    map[int][]string // created files released "as committed" before the swap phase of the current commit
}

func newLeftoverObserver(files []FileSpec) *leftoverObserver {
	return &leftoverObserver{files: files, created: map[string]int{}, commitOK: map[string]bool{}, inCommit: map[int]bool{}}
}

func (l *leftoverObserver) OnArrival(k *Kernel, g *G, a *arrival) {
	if l.before == nil {
		l.before = statFiles(k.Dir, l.files)
	}
	switch a.point {
	case "h.acquired":
		if a.arg[0] == 'C' {
			l.created[k.Norm(a.arg[2:])] = g.proc.idx
		}
	case "h.released":
		// A created table is committed when its handler is released as
		// committed in the swap phase of COMMIT (every table has been written by
		// then), or when the COMMIT that released it completes. A release "as
		// committed" while other tables are still being written does not count
		// if that COMMIT then fails.
		if strings.HasPrefix(a.arg, "commit ") {
			path := k.Norm(a.arg[7:])
			if l.inCommit[g.proc.idx] {
				l.commitOK[path] = true
			} else {
				if l.early == nil {
					l.early = map[int][]string{}
				}
				l.early[g.proc.idx] = append(l.early[g.proc.idx], path)
			}
		}
	case "tx.commit.swap":
		l.inCommit[g.proc.idx] = true
	case "tx.commit.done":
		for _, path := range l.early[g.proc.idx] {
			l.commitOK[path] = true
		}
		delete(l.early, g.proc.idx)
		l.inCommit[g.proc.idx] = false
	case "tx.rollback.done":
		delete(l.early, g.proc.idx)
		l.inCommit[g.proc.idx] = false
	}
}

func (c11) Eval(t *testing.T, c *Case, dec func(int) *Decider) *Outcome {
	sc := c.Scenario
	var meta c11Meta
	mustUnJSON(sc.Meta["workload"], &meta)
	o := &Outcome{}
	const prop = "C11"

	run := func(i int, s *Scenario) *RunResult {
		lo := newLeftoverObserver(s.Files)
		res, k := Execute(t, s, dec(i), lo)
		_ = k
		o.Runs++
		o.addStats(res.Stats)
		o.LogHash += res.LogHash
		o.TraceHash += res.TraceHash
		o.Trace = tail(res.Log, 300)
		judgeLeftovers(o, prop, s, &meta, res, lo, i)
		return res
	}
	// run 0: natural endings only (success, statement errors, EXIT, lock timeouts)
	base := *sc
	base.Cancels, base.Faults, base.Torn = nil, nil, nil
	resA := run(0, &base)
	o.NonTrivial = resA.Stats.Switches > len(sc.Procs) || len(sc.Procs) == 1

	if !meta.Injected {
		// choose one injected termination from what run 0 actually did
		r := Sub(c.Seed, "inject")
		p := r.Intn(len(sc.Procs))
		if r.Bool(0.6) || len(resA.StepHits[p]) == 0 {
			y := resA.ProcYields[p]
			if y < 1 {
				y = 1
			}
			sc.Cancels = []CancelSpec{{Proc: p, AtYield: 1 + r.Intn(y)}}
		} else {
			var pts []string
			for pt := range resA.StepHits[p] {
				for _, fp := range faultPoints {
					if fp == pt {
						pts = append(pts, pt)
					}
				}
			}
			sort.Strings(pts)
			if len(pts) == 0 {
				sc.Cancels = []CancelSpec{{Proc: p, AtYield: 1 + r.Intn(resA.ProcYields[p]+1)}}
			} else {
				pt := pts[r.Intn(len(pts))]
				sc.Faults = []FaultSpec{{Proc: p, Point: pt, Nth: 1 + r.Intn(resA.StepHits[p][pt]), Errno: faultErrnos[r.Intn(len(faultErrnos))], Mode: r.PickS("", "env", "env")}}
			}
		}
		meta.Injected = true
		sc.Meta["workload"] = mustJSON(&meta)
	}
	resB := run(1, sc)
	// real-process tier: the same program in the real binary, with SIGINT/SIGTERM/SIGQUIT
	// delivered to itself at a named hook point, through the real cli/app.go plumbing
	if bin := os.Getenv("VERIF_CSVQ_BIN"); bin != "" && Sub(c.Seed, "real").Bool(0.25) {
		r := Sub(c.Seed, "realsig")
		p := r.Intn(len(sc.Procs))
		pts := []string{"cf.rlock.check", "cf.rlock.create", "cf.lock.create", "cf.lock.recheck", "h.open.read", "h.open.update", "h.opened", "cf.temp.create",
			"load.prod.row", "load.cons.recv", "gm.run.row", "eval.seq.row", "tx.commit.truncate", "tx.commit.write", "tx.commit.swap", "h.commit.rename",
			"cf.close.unlock", "cf.close.remove", "h.release.unlock", "h.released", "tx.commit.done", "h.create.file"}
		spec := fmt.Sprintf("%s#%d:%s", pts[r.Intn(len(pts))], 1+r.Intn(3), r.PickS("INT", "TERM", "QUIT"))
		if r.Bool(0.35) {
			spec = "no.such.point#1:INT" // no signal: the natural end of the program through the real cli/app.go
			o.Stats.probe("real-natural-end-run")
		}
		// in 30% of these runs the first statements of the program come from a preload
		// file (./csvqrc), which csvq executes before the query given on the command line
		preload := 0
		if r.Bool(0.3) {
			preload = r.Range(1, 3)
			o.Stats.probe("real-preload-run")
		}
		// in 15% of the runs nobody reads what the process prints (csvq ... | head -1):
		// its next write to standard output raises SIGPIPE
		brokenPipe := r.Bool(0.15)
		if brokenPipe {
			spec = "no.such.point#1:INT"
			o.Stats.probe("real-broken-pipe-run")
		}
		realBrokenPipe = brokenPipe
		// in 4% of the runs the signal arrives while a statement runs that does not look at its context
		// for several seconds (an external command): csvq ends when that statement ends - and cleans up
		realStallSignal, realStallSecond = "", ""
		if rs := Sub(c.Seed, "realstall"); !brokenPipe && preload == 0 && rs.Bool(0.04) {
			realStallSignal, realStallAfter = rs.PickS("TERM", "INT", "QUIT"), rs.Intn(64)
			realStallSecond = ""
			if rs.Bool(0.5) {
				realStallSecond = rs.PickS("TERM", "INT", "QUIT")
				o.Stats.probe("real-second-signal-during-external-command")
			}
			spec = "no.such.point#1:INT"
			o.Stats.probe("real-signal-during-external-command")
		}
		dir, code, stderr, err := realSignalRun(bin, sc, p, spec, preload)
		o.RealProc++
		if err != nil && strings.Contains(err.Error(), "did not terminate within") {
			// once more: a process that hangs twice in a row hangs; a single stall on a loaded machine is only noted
			o.Notes = append(o.Notes, "a real-process run stalled once: "+err.Error())
			dir, code, stderr, err = realSignalRun(bin, sc, p, spec, preload)
			o.RealProc++
		}
		if err != nil {
			o.viol(prop, "termination", "real-process:"+errClass(err.Error()), err.Error())
		} else {
			o.Stats.probe("real-signal-run")
			if code >= 128 {
				o.Stats.probe("real-signal-delivered")
			}
			for _, n := range dir.Names() {
				if IsControlFile(n) && !contains(meta.Stale, n) {
					o.viol(prop, "control-files", "real-leftover:"+ctlKind(n),
						fmt.Sprintf("real csvq process (program of p%d, signal plan %s, exit %d) left %s behind; stderr: %s", p, spec, code, n, firstLine(stderr)))
				}
			}
			if meta.Kind == "readonly" {
				for _, f := range sc.Files {
					if got, ok := dir[f.Name]; !ok || got.Data != f.Content {
						o.viol(prop, "read-only", "real-readonly-changed", fmt.Sprintf("real csvq process changed %s although the program only reads (signal plan %s)", f.Name, spec))
					}
				}
			}
		}
	}
	o.Sample = map[string]interface{}{"seed": c.Seed, "kind": meta.Kind, "procs": programs(sc), "cancels": sc.Cancels, "faults": sc.Faults,
		"strategy": sc.Sched.Strategy, "outputs_natural": outputs(resA), "outputs_injected": outputs(resB), "final": resB.Final.Names()}
	return o
}

func judgeLeftovers(o *Outcome, prop string, sc *Scenario, meta *c11Meta, res *RunResult, lo *leftoverObserver, runIdx int) {
	if res.Hang != "" || res.LimitHit || res.BubbleErr != "" {
		o.viol(prop, "termination", "hang", fmt.Sprintf("run %d did not terminate: %s %s", runIdx, res.Hang, res.BubbleErr))
		return
	}
	for i, p := range res.Procs {
		if p.Panic != "" {
			o.viol(prop, "termination", "panic", fmt.Sprintf("p%d panicked: %s", i, p.Panic))
		}
		switch {
		case p.ExitCode == 0:
			o.Stats.probe("end:success")
		case strings.Contains(p.ErrType, "SignalReceived"):
			o.Stats.probe("end:signal")
		case strings.Contains(p.ErrType, "Timeout") || strings.Contains(p.ErrText, "deadline exceeded"):
			o.Stats.probe("end:lock-timeout")
		case strings.Contains(p.ErrType, "ForcedExit"):
			o.Stats.probe("end:exit-n")
		default:
			o.Stats.probe("end:error")
		}
	}
	// a cancelled process ends promptly: whatever it was waiting for (a lock held by somebody else, with any
	// --wait-timeout), it stops waiting when the signal arrives (elapsed time is no measure: a process that
	// is not scheduled sees the clock move too; what counts is that it does not go back to sleep)
	for i, p := range res.Procs {
		if p.CancelTime > 0 && p.SleepsAfterCancel >= 3 {
			o.viol(prop, "termination", "cancelled-process-kept-waiting",
				fmt.Sprintf("run %d: p%d was interrupted at t=%v and went back to sleep %d times in its lock wait before it ended at t=%v (%s; --wait-timeout %.2f s)", runIdx, i, p.CancelTime, p.SleepsAfterCancel, p.EndTime, firstLine(p.ErrText), sc.Procs[i].WaitTimeoutS))
		} else if p.CancelTime > 0 {
			o.Stats.probe("cancelled-process-ended-promptly")
		}
	}
	stale := map[string]bool{}
	for _, n := range meta.Stale {
		stale[n] = true
		o.Stats.probe("stale-control-file-scenario")
	}
	for _, n := range res.Final.Names() {
		if IsControlFile(n) && !stale[n] {
			o.viol(prop, "control-files", "leftover:"+ctlKind(n),
				fmt.Sprintf("run %d: %s is left in the repository after every process has terminated (cancels=%v faults=%v; endings: %s)", runIdx, n, sc.Cancels, sc.Faults, strings.Join(outputsShort(res), "; ")))
		}
	}
	if hookMissing("h.acquired", "h.released", "tx.commit.swap", "tx.commit.done", "tx.rollback.done") {
		// which created table was committed is only known from these events
		lo.created = nil
		o.Stats.probe("oracle-off:uncommitted-create")
	}
	for path, p := range lo.created {
		name := strings.TrimPrefix(path, "$R/")
		if _, exists := res.Final[name]; exists && !lo.commitOK[path] {
			o.viol(prop, "uncommitted-create", "uncommitted-table-left",
				fmt.Sprintf("run %d: table %s was created by p%d, never committed, and still exists (ending: %s)", runIdx, name, p, outputsShort(res)[p]))
		}
		if lo.commitOK[path] {
			o.Stats.probe("created-and-committed")
		} else {
			o.Stats.probe("created-not-committed")
		}
	}
	// the same from the outside: a file that was not there at the start is a table some transaction committed
	// (a creation that fails half way never reaches the hook that announces the handler)
	if lo.created != nil {
		given := map[string]bool{}
		for _, f := range sc.Files {
			given[f.Name] = true
		}
		for _, ps := range sc.Procs {
			if ps.OutFile != "" {
				given[filepath.Clean(ps.OutFile)] = true
			}
		}
		for _, n := range res.Final.Names() {
			if given[n] || IsControlFile(n) || lo.commitOK["$R/"+n] {
				continue
			}
			if _, seen := lo.created["$R/"+n]; seen {
				continue // reported above
			}
			o.viol(prop, "uncommitted-create", "uncommitted-table-left",
				fmt.Sprintf("run %d: %s appeared in the repository although no transaction committed it (endings: %s)", runIdx, n, strings.Join(outputsShort(res), "; ")))
		}
	}
	// an --out file into which nothing was written does not stay behind
	for i, ps := range sc.Procs {
		if ps.OutFile == "" {
			continue
		}
		name := filepath.Clean(ps.OutFile)
		if contains(meta.OutExists, ps.OutFile) {
			if _, exists := res.Final[name]; !exists {
				o.viol(prop, "out-file", "existing-out-file-removed", fmt.Sprintf("run %d: the --out file %s of p%d existed (empty) before the run and is gone after it (%s)", runIdx, ps.OutFile, i, outputsShort(res)[i]))
			} else {
				o.Stats.probe("existing-out-file-kept")
			}
			continue
		}
		if f, exists := res.Final[name]; exists && len(f.Data) == 0 {
			o.viol(prop, "out-file", "empty-out-file-left", fmt.Sprintf("run %d: p%d wrote nothing to its --out file %s, which is still there (empty) after the process has ended (%s)", runIdx, i, ps.OutFile, outputsShort(res)[i]))
		} else if !exists {
			o.Stats.probe("empty-out-file-removed")
		}
	}
	if meta.Kind == "readonly" {
		for _, f := range sc.Files {
			if f.Dir {
				continue
			}
			got, ok := res.Final[f.Name]
			if !ok {
				o.viol(prop, "read-only", "readonly-file-missing", fmt.Sprintf("run %d: %s disappeared although every program only reads", runIdx, f.Name))
				continue
			}
			if got.Data != f.Content {
				o.viol(prop, "read-only", "readonly-bytes-changed", fmt.Sprintf("run %d: %s changed although every program only reads", runIdx, f.Name))
			}
			b, a := lo.before[f.Name], res.FinalIDs[f.Name]
			if b.ino != a.ino || b.mtime != a.mtime {
				o.viol(prop, "read-only", "readonly-file-replaced", fmt.Sprintf("run %d: %s was rewritten (inode %d->%d, mtime %d->%d) although every program only reads", runIdx, f.Name, b.ino, a.ino, b.mtime, a.mtime))
			}
		}
		o.Stats.probe("readonly-scenario")
	}
}

func ctlKind(n string) string {
	switch {
	case strings.HasSuffix(n, ".lock"):
		return "lock"
	case strings.HasSuffix(n, ".temp"):
		return "temp"
	}
	return "rlock"
}

func outputsShort(res *RunResult) []string {
	var l []string
	for i, p := range res.Procs {
		l = append(l, fmt.Sprintf("p%d exit=%d %s", i, p.ExitCode, firstLine(p.ErrText)))
	}
	return l
}

// realSignalRun runs the program of process p alone in the real binary with a
// VERIF_PLAN that makes it signal itself at a hook point.
// realBrokenPipe: the next real-process run gets a standard output nobody reads.
var realBrokenPipe bool

// realStallSignal / realStallAfter: see realSignalRun (set per evaluation, like realBrokenPipe)
var (
	realStallSignal string
	realStallSecond string
	realStallAfter  int
)

func realSignalRun(bin string, sc *Scenario, p int, spec string, preload int) (DirState, int, string, error) {
	setupBase()
	dir, err := os.MkdirTemp(BaseDir, "real11-")
	if err != nil {
		return nil, 0, "", err
	}
	defer os.RemoveAll(dir)
	if err := writeFiles(dir, sc.Files); err != nil {
		return nil, 0, "", err
	}
	plan, _ := json.Marshal(map[string]string{"signal": spec})
	program := sc.Procs[p].Program
	cwd := filepath.Join(BaseDir, "cwd")
	if preload > 0 {
		// the preload file is looked up in the working directory, and its statements run
		// before --repository is applied: the repository is the working directory here
		lines := strings.Split(program, "\n")
		k := min(preload, len(lines))
		if err := os.WriteFile(filepath.Join(dir, "csvqrc"), []byte(strings.Join(lines[:k], "\n")+"\n"), 0o644); err != nil {
			return nil, 0, "", err
		}
		program = strings.Join(lines[k:], "\n")
		if strings.TrimSpace(program) == "" {
			program = "VAR @nothing_left := 1;"
		}
		cwd = dir
	}
	if realStallSignal != "" {
		// a statement that does not notice the cancellation for a while: an external command that sends the
		// signal to csvq and then keeps running for 4 s, placed after the k-th statement of the program
		script := filepath.Join(dir, "stall.sh")
		body := "kill -" + realStallSignal + " $PPID\nsleep 4\n"
		if realStallSecond != "" {
			// ... and a second signal while csvq is still waiting for the statement to end (Ctrl-C pressed
			// twice, a supervisor that sends SIGINT and then SIGTERM)
			body = "kill -" + realStallSignal + " $PPID\nsleep 1\nkill -" + realStallSecond + " $PPID\nsleep 2\n"
		}
		if err := os.WriteFile(script, []byte(body), 0o755); err != nil {
			return nil, 0, "", err
		}
		lines := strings.Split(program, "\n")
		k := realStallAfter % (len(lines) + 1)
		lines = append(lines[:k:k], append([]string{"$ sh " + script + ";"}, lines[k:]...)...)
		program = strings.Join(lines, "\n")
	}
	cmd := exec.Command(bin, "--repository", dir, "--quiet", "--cpu", "1", "--format", "CSV", "--wait-timeout", "1", program)
	cmd.Env = append(os.Environ(), "VERIF_PLAN="+string(plan))
	cmd.Dir = cwd
	if realBrokenPipe {
		pr, pw, err := os.Pipe()
		if err != nil {
			return nil, 0, "", err
		}
		_ = pr.Close() // no reader: the first write fails with EPIPE / raises SIGPIPE
		cmd.Stdout = pw
		defer pw.Close()
	}
	var stderr bytes.Buffer
	cmd.Stderr = &stderr
	done := make(chan error, 1)
	if err := cmd.Start(); err != nil {
		return nil, 0, "", err
	}
	go func() { done <- cmd.Wait() }()
	select {
	case err := <-done:
		code := 0
		if ee, ok := err.(*exec.ExitError); ok {
			code = ee.ExitCode()
			if code < 0 {
				return nil, 0, stderr.String(), fmt.Errorf("real process was killed by the signal instead of handling it (plan %s): %v", spec, err)
			}
		} else if err != nil {
			return nil, 0, stderr.String(), err
		}
		st := SnapshotDir(dir)
		delete(st, "csvqrc")
		delete(st, "stall.sh")
		return st, code, stderr.String(), nil
	case <-time.After(15 * time.Second):
		_ = cmd.Process.Kill()
		return nil, 0, stderr.String(), fmt.Errorf("real process did not terminate within 15 s after plan %s", spec)
	}
}
