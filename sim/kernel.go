package sim

import (
	"bytes"
	"fmt"
	"io"
	"os"
	"path/filepath"
	"runtime"
	"sort"
	"strconv"
	"strings"
	"sync"
	"sync/atomic"
	"syscall"
	"testing/synctest"
	"time"

	"github.com/mithrandie/csvq/lib/vhook"
)

// ---------------------------------------------------------------------------
// messages between simulated goroutines and the controller. All communication
// goes through channels carrying values; the controller's state is private to
// the controller goroutine (needed for race-transparent yields, see race_*.go).

type msgKind int

const (
	mYield msgKind = iota
	mStep
	mEvent
	mAdopt
	mDone
)

type resumeMsg struct {
	err   error
	split int // for writers: >0 = write this many bytes, then park again
}

type arrival struct {
	kind   msgKind
	gptr   uintptr
	goid   uint64
	parent uint64
	point  string
	idx    int
	arg    string
	proc   int
	cancel func()
	result *ProcResult
	resume chan resumeMsg
}

// G is a simulated goroutine as seen by the controller.
type G struct {
	id        int
	goid      uint64
	proc      *Proc
	cur       *arrival // non-nil while parked
	lastPoint string
	prio      int
	steps     int
	undo      func() // reverts a temporary file-system condition set up for this goroutine's current step
}

// stmtCtl lets the controller cancel only the statement a shell-mode process
// is executing right now.
type stmtCtl struct {
	mu     sync.Mutex
	cancel func()
}

func (c *stmtCtl) set(f func()) {
	c.mu.Lock()
	c.cancel = f
	c.mu.Unlock()
}

func (c *stmtCtl) fire() bool {
	c.mu.Lock()
	f := c.cancel
	c.mu.Unlock()
	if f != nil {
		f()
		return true
	}
	return false
}

type Proc struct {
	stmt               stmtCtl
	idx                int
	spec               *ProcSpec
	cancel             func()
	done               bool
	res                *ProcResult
	yields             int
	stepHits           map[string]int
	writes             int
	cancelled          atomic.Bool // written by the controller, read by the process goroutine
	cancelAt           time.Duration
	sleepsAfterCancel  int
	startStep, endStep int64
	ending             atomic.Bool  // the program has returned: what follows is the deferred rollback and release
	out                *stampWriter // (read by observers only while the process is parked)
}

// ProcResult is what a simulated process leaves behind.
type ProcResult struct {
	Stdout             string        `json:"stdout"`
	Stderr             string        `json:"stderr"`
	ExitCode           int           `json:"exit_code"`
	ErrText            string        `json:"err_text"`
	ErrType            string        `json:"err_type"`
	Fatal              bool          `json:"fatal"`
	IsQueryError       bool          `json:"is_query_error"`
	StdinErrorReturned bool          `json:"stdin_error_returned,omitempty"`
	Panic              string        `json:"panic,omitempty"`
	Stamps             []OutStamp    `json:"-"`
	StdoutFaults       int           `json:"stdout_faults,omitempty"`
	EndStep            int64         `json:"end_step"`
	EndTime            time.Duration `json:"end_time_ns"`
	CancelTime         time.Duration `json:"cancel_time_ns,omitempty"`      // simulated time at which the process was cancelled (0: never)
	SleepsAfterCancel  int           `json:"sleeps_after_cancel,omitempty"` // retry sleeps of a lock wait begun after the cancellation
	Uneven             string        `json:"uneven,omitempty"`
}

// OutStamp: one write to stdout with the scheduler step at which it happened.
type OutStamp struct {
	Step int64
	Time time.Duration
	Text string
}

type Observer interface {
	// OnArrival is called by the controller when goroutine g parks with a.
	// Everything else in the simulation is quiescent at that moment.
	OnArrival(k *Kernel, g *G, a *arrival)
}

type Kernel struct {
	sc  *Scenario
	Dir string

	mutSeen, mutDone int // MutateSpec: qualifying yields seen / writes done

	inbox chan arrival
	free  atomic.Bool
	step  atomic.Int64
	// progress counts turns of the controller loop; Execute watches it in REAL
	// time to detect blocks that synctest does not consider durable (a
	// sync.Mutex never released, a spin loop, a blocking system call)
	progress  atomic.Int64
	rowStride uint64
	rowCtr    atomic.Uint64

	// controller-private
	gs      map[uintptr]*G // by runtime descriptor address
	byGoid  map[uint64]*G  // by goroutine id, for goroutines that reported one
	glist   []*G
	parked  []*G
	procs   []*Proc
	dec     *Decider
	strat   *Strategy
	log     []string
	obs     []Observer
	start   time.Time
	lastRun *G
	ctlGoid uint64
	pending []arrival

	Hang     string // non-empty: why the run was declared hung
	LimitHit bool
	Stats    RunStats

	pool *SimPool
}

type RunStats struct {
	Steps        int            `json:"steps"`
	Switches     int            `json:"switches"`
	TimeAdvances int            `json:"time_advances"`
	Goroutines   int            `json:"goroutines"`
	Faults       map[string]int `json:"faults"`
	Probes       map[string]int `json:"probes"`
	SimTime      time.Duration  `json:"sim_time_ns"`
	MaxWorkers   int            `json:"max_workers"`
}

func (s *RunStats) fault(kind string) {
	if s.Faults == nil {
		s.Faults = map[string]int{}
	}
	s.Faults[kind]++
}

func (s *RunStats) probe(name string) {
	if s.Probes == nil {
		s.Probes = map[string]int{}
	}
	s.Probes[name]++
}

// ---------------------------------------------------------------------------
// hook side (runs on simulated goroutines)

func curGoid() uint64 {
	var buf [40]byte
	n := runtime.Stack(buf[:], false)
	// "goroutine 123 ["
	s := buf[10:n]
	var id uint64
	for _, c := range s {
		if c < '0' || c > '9' {
			break
		}
		id = id*10 + uint64(c-'0')
	}
	return id
}

// goidAndParent parses the goroutine id and, when the whole stack fits, the id
// of the creating goroutine from a stack dump. Only used at start points.
func goidAndParent() (uint64, uint64) {
	buf := make([]byte, 8192)
	n := runtime.Stack(buf, false)
	s := string(buf[:n])
	num := func(s string) uint64 {
		var id uint64
		for _, c := range s {
			if c < '0' || c > '9' {
				break
			}
			id = id*10 + uint64(c-'0')
		}
		return id
	}
	goid := num(s[len("goroutine "):])
	i := strings.LastIndex(s, " in goroutine ")
	if i < 0 {
		return goid, 0
	}
	return goid, num(s[i+len(" in goroutine "):])
}

func isRowPoint(p string) bool {
	// load.cons.recv is never thinned: it follows a channel receive, i.e. a
	// wake-up caused by another goroutine, and must park so that two goroutines
	// never do work at the same time
	return strings.HasSuffix(p, ".row") || p == "load.prod.sent"
}

func (k *Kernel) park(kind msgKind, point string, idx int, arg string) resumeMsg {
	if k.free.Load() {
		return resumeMsg{}
	}
	raceDisable()
	a := arrival{kind: kind, gptr: getg(), point: point, idx: idx, arg: arg, resume: make(chan resumeMsg)}
	if strings.HasSuffix(point, ".start") {
		a.goid, a.parent = goidAndParent()
	}
	k.inbox <- a
	r := <-a.resume
	raceEnable()
	return r
}

func (k *Kernel) Yield(point string, idx int) {
	if k.rowStride > 1 && isRowPoint(point) {
		// the shared counter is an atomic read-modify-write: without the bracket it
		// would order every worker's row after the previous worker's row for the race
		// detector and hide races between them
		raceDisable()
		skip := k.rowCtr.Add(1)%k.rowStride != 0
		raceEnable()
		if skip {
			return
		}
	}
	k.park(mYield, point, idx, "")
}

func (k *Kernel) Step(point string, arg string) error {
	return k.park(mStep, point, 0, arg).err
}

func (k *Kernel) Event(point string, arg string) {
	k.park(mEvent, point, 0, arg)
}

func (k *Kernel) AwaitMutex(name string, m *sync.Mutex) {
	for !m.TryLock() {
		k.park(mYield, "mutex."+name, 0, "")
		if k.free.Load() {
			// free-running after an abort: fall back to a real wait
			return
		}
	}
	m.Unlock()
}

func (k *Kernel) Knob(name string, def int) int { return def }

type simWriter struct {
	k     *Kernel
	point string
	w     io.Writer
}

func (k *Kernel) Writer(point string, w io.Writer) io.Writer {
	return &simWriter{k: k, point: point, w: w}
}

func (w *simWriter) Write(b []byte) (int, error) {
	r := w.k.park(mStep, w.point, len(b), "")
	if r.err != nil {
		return 0, r.err
	}
	if 0 < r.split && r.split < len(b) {
		n, err := w.w.Write(b[:r.split])
		if err != nil {
			return n, err
		}
		r2 := w.k.park(mStep, w.point+".mid", len(b)-r.split, "")
		if r2.err != nil {
			return n, r2.err
		}
		m, err := w.w.Write(b[r.split:])
		return n + m, err
	}
	return w.w.Write(b)
}

// ---------------------------------------------------------------------------
// controller

func NewKernel(sc *Scenario, dir string, dec *Decider) *Kernel {
	k := &Kernel{
		sc:     sc,
		Dir:    dir,
		gs:     map[uintptr]*G{},
		byGoid: map[uint64]*G{},
		dec:    dec,
	}
	k.rowStride = uint64(sc.Knobs.RowStride)
	k.pool = NewSimPool(sc.Knobs.Pool, sc.Knobs.PoolSeed)
	return k
}

func (k *Kernel) logf(format string, args ...interface{}) {
	k.log = append(k.log, fmt.Sprintf(format, args...))
}

// Norm removes run-specific strings (the run directory, rlock suffixes).
func (k *Kernel) Norm(s string) string {
	s = strings.ReplaceAll(s, k.Dir, "$R")
	s = strings.ReplaceAll(s, strings.ToUpper(k.Dir), "$R")
	return maskRLock(s)
}

func maskRLock(s string) string {
	// ._name.XXXXXXXXXXXX.rlock -> ._name.*.rlock
	for {
		i := strings.Index(s, ".rlock")
		if i < 13 || s[i-13] != '.' {
			return s
		}
		ok := true
		for _, c := range s[i-12 : i] {
			if !(c >= '0' && c <= '9' || c >= 'a' && c <= 'z' || c >= 'A' && c <= 'Z') {
				ok = false
			}
		}
		if !ok {
			return s
		}
		s = s[:i-12] + "*" + ".rl0ck" + s[i+6:]
	}
}

func (k *Kernel) Now() time.Duration { return time.Since(k.start) }

func (k *Kernel) sleepers() int {
	n := 0
	for _, g := range k.glist {
		if g.cur == nil && !g.proc.done && isSleepPoint(g.lastPoint) {
			n++
		}
	}
	return n
}

// parallelSite names the csvq function that started the worker goroutines of
// the goroutine `parent` is waiting for: the frame below GoroutineTaskManager.Run
// / EvaluateSequentially (or the function itself for the hand-written worker
// loops) in the parent's stack. Called by the controller while everything is
// parked; used for reach probes only.
func parallelSite(parent uint64) string {
	if parent == 0 {
		return "?"
	}
	buf := make([]byte, 1<<18)
	n := runtime.Stack(buf, true)
	s := string(buf[:n])
	i := strings.Index(s, fmt.Sprintf("goroutine %d [", parent))
	if i < 0 {
		return "?"
	}
	s = s[i:]
	if j := strings.Index(s, "\n\n"); j > 0 {
		s = s[:j]
	}
	const pkg = "github.com/mithrandie/csvq/lib/query."
	site := "?"
	for _, l := range strings.Split(s, "\n") {
		if !strings.HasPrefix(l, pkg) {
			continue
		}
		fn := l[len(pkg):]
		if j := strings.LastIndex(fn, "("); j > 0 {
			fn = fn[:j]
		}
		if strings.Contains(fn, "GoroutineTaskManager") || strings.HasPrefix(fn, "EvaluateSequentially") {
			continue
		}
		site = fn
		break
	}
	return site
}

func isWorkerPoint(p string) bool {
	return strings.HasPrefix(p, "gm.run.") || strings.HasPrefix(p, "eval.seq.") || strings.HasPrefix(p, "group.") ||
		strings.HasPrefix(p, "join.") || strings.HasPrefix(p, "analyze.")
}

func isSleepPoint(p string) bool {
	return p == "cf.retry.sleep" || p == "h.open.read" || p == "h.open.update"
}

// drain collects every message that is available now. It returns false when
// nothing arrived.
func (k *Kernel) drain() bool {
	as := k.pending
	k.pending = nil
	for {
		got := false
		for {
			select {
			case a := <-k.inbox:
				as = append(as, a)
				got = true
				continue
			default:
			}
			break
		}
		if !got {
			break
		}
		synctest.Wait()
	}
	if len(as) == 0 {
		return false
	}
	// canonical order: known goroutines by id, then new ones by (point, idx, parent id)
	type item struct {
		a   *arrival
		g   *G
		key string
	}
	items := make([]item, len(as))
	for i := range as {
		a := &as[i]
		g := k.lookup(a)
		it := item{a: a, g: g}
		if g != nil {
			it.key = fmt.Sprintf("0:%09d:%d", g.id, a.kind)
		} else {
			pid := -1
			if a.kind == mAdopt {
				pid = a.proc
			} else if pg := k.byGoid[a.parent]; pg != nil {
				pid = pg.proc.idx
			}
			it.key = fmt.Sprintf("1:%04d:%s:%09d", pid+1, a.point, a.idx)
		}
		items[i] = it
	}
	sort.SliceStable(items, func(i, j int) bool { return items[i].key < items[j].key })
	for _, it := range items {
		k.accept(it.a)
	}
	return true
}

// lookup finds the simulated goroutine an arrival comes from. Runtime
// descriptors are recycled, so at start points (where the real goroutine id is
// reported) a descriptor that now carries another id denotes a new goroutine.
func (k *Kernel) lookup(a *arrival) *G {
	g := k.gs[a.gptr]
	if g != nil && a.goid != 0 && g.goid != 0 && g.goid != a.goid {
		delete(k.gs, a.gptr)
		return nil
	}
	return g
}

func (k *Kernel) accept(a *arrival) {
	g := k.lookup(a)
	if a.kind == mDone {
		p := k.procs[a.proc]
		p.done = true
		p.res = a.result
		p.endStep = k.step.Load()
		p.res.EndStep = p.endStep
		p.res.EndTime = k.Now()
		p.res.CancelTime = p.cancelAt
		p.res.SleepsAfterCancel = p.sleepsAfterCancel
		k.logf("done p%d exit=%d err=%s t=%v", p.idx, p.res.ExitCode, k.Norm(p.res.ErrText), k.Now())
		for _, og := range k.glist {
			if og.proc == p && og.undo != nil {
				og.undo()
				og.undo = nil
			}
		}
		return
	}
	if g == nil {
		var p *Proc
		if a.kind == mAdopt {
			p = k.procs[a.proc]
			p.cancel = a.cancel
		} else if pg := k.byGoid[a.parent]; pg != nil {
			p = pg.proc
		} else if k.lastRun != nil {
			p = k.lastRun.proc
		} else {
			p = k.procs[0]
		}
		g = &G{id: len(k.glist), goid: a.goid, proc: p}
		if k.strat != nil {
			g.prio = k.strat.newPrio(len(k.glist))
		}
		k.gs[a.gptr] = g
		if a.goid != 0 {
			k.byGoid[a.goid] = g
		}
		k.glist = append(k.glist, g)
		k.Stats.Goroutines++
	}
	if g.undo != nil {
		g.undo()
		g.undo = nil
	}
	g.cur = a
	g.proc.yields++
	k.parked = append(k.parked, g)
	sort.Slice(k.parked, func(i, j int) bool { return k.parked[i].id < k.parked[j].id })
	if a.goid != 0 && a.idx == 1 && isWorkerPoint(a.point) {
		// reach probe: which of csvq's parallel sections ran with a second worker
		k.Stats.probe("par@" + parallelSite(a.parent))
	}
	if isWorkerPoint(a.point) {
		n := 0
		for _, pg := range k.parked {
			if pg.cur != nil && isWorkerPoint(pg.cur.point) && pg.proc == g.proc {
				n++
			}
		}
		if n > k.Stats.MaxWorkers {
			k.Stats.MaxWorkers = n
		}
	}
	if a.kind == mEvent {
		k.logf("ev g%d p%d %s %s t=%v", g.id, g.proc.idx, a.point, k.Norm(a.arg), k.Now())
	} else {
		k.logf("at g%d p%d %s/%d", g.id, g.proc.idx, a.point, a.idx)
	}
	if a.point == "cf.retry.sleep" && g.proc.cancelAt > 0 {
		g.proc.sleepsAfterCancel++
	}
	for _, o := range k.obs {
		o.OnArrival(k, g, a)
	}
	if k.sc.RmRepoAt > 0 && g.proc.idx == 0 && g.proc.yields == k.sc.RmRepoAt {
		_ = os.RemoveAll(k.Dir)
		k.logf("repository removed at yield %d (%s)", g.proc.yields, a.point)
		k.Stats.fault("repository-removed")
	}
	if mu := k.sc.Mutate; mu != nil && g.proc.idx == 0 && mu.Every > 0 && (mu.Mode == "touch" || mu.Mode == "remove" || strings.HasPrefix(a.point, "load.")) {
		k.mutSeen++
		if k.mutSeen%mu.Every == 0 && (mu.Max == 0 || k.mutDone < mu.Max) {
			p := filepath.Join(k.Dir, mu.File)
			switch mu.Mode {
			case "touch":
				ts := time.Date(2001, 1, 1, 0, 0, 0, 0, time.UTC).Add(time.Duration(k.mutDone+1) * time.Second)
				if os.Chtimes(p, ts, ts) == nil {
					k.mutDone++
					k.Stats.fault("file-touched-under-reader")
				}
			case "remove":
				if os.Remove(p) == nil {
					k.mutDone++
					k.Stats.fault("file-removed-under-process")
				}
			case "append":
				if f, err := os.OpenFile(p, os.O_WRONLY|os.O_APPEND, 0); err == nil {
					_, _ = f.WriteString(mu.Line)
					_ = f.Close()
					k.mutDone++
					k.Stats.fault("file-appended-under-reader")
				}
			}
		}
	}
	// scenario-level cancellation (a simulated signal) keyed to the process's
	// own progress, so that it survives schedule minimisation
	for i := range k.sc.Cancels {
		c := &k.sc.Cancels[i]
		if c.Stmt && c.Proc == g.proc.idx && c.AtYield == g.proc.yields {
			if g.proc.stmt.fire() {
				k.logf("cancel statement of p%d at yield %d (%s)", g.proc.idx, g.proc.yields, a.point)
				k.Stats.fault("cancel-statement")
				k.Stats.probe("stmtcancel@" + pointClass(a.point))
			}
			continue
		}
		if c.Proc == g.proc.idx && c.AtYield == g.proc.yields && g.proc.cancel != nil && !g.proc.cancelled.Load() {
			g.proc.cancelled.Store(true)
			g.proc.cancelAt = k.Now() + 1
			k.logf("cancel p%d at yield %d (%s)", g.proc.idx, g.proc.yields, a.point)
			k.Stats.fault("cancel")
			k.Stats.probe("cancel@" + pointClass(a.point))
			g.proc.cancel()
		}
	}
}

func pointClass(p string) string {
	if i := strings.Index(p, "."); 0 < i {
		if j := strings.Index(p[i+1:], "."); 0 < j {
			return p[:i+1+j]
		}
	}
	return p
}

// resume releases a parked goroutine, deciding about injected faults.
func (k *Kernel) resume(g *G) {
	a := g.cur
	g.cur = nil
	g.lastPoint = a.point
	g.steps++
	var r resumeMsg
	if a.kind == mStep {
		p := g.proc
		if p.stepHits == nil {
			p.stepHits = map[string]int{}
		}
		p.stepHits[a.point]++
		n := p.stepHits[a.point]
		for i := range k.sc.Faults {
			f := &k.sc.Faults[i]
			if f.Proc == p.idx && f.Point == a.point && (f.Nth == n || (f.Persistent && f.Nth <= n)) {
				if f.Mode == "env" {
					// make the real call fail by a real file-system condition that only
					// this goroutine can observe (everyone else is parked until it is undone)
					if undo := envFault(a.point, a.arg); undo != nil {
						g.undo = undo
						k.logf("envfault p%d %s#%d", p.idx, a.point, n)
						k.Stats.fault("fs-env:" + a.point)
						k.Stats.probe("fault@" + a.point)
						continue
					}
				}
				r.err = &os.PathError{Op: "simfault", Path: k.Norm(a.arg), Err: vhook.ErrnoByName(f.Errno)}
				k.logf("fault p%d %s#%d %s", p.idx, a.point, n, f.Errno)
				k.Stats.fault("fs:" + f.Errno)
				k.Stats.probe("fault@" + a.point)
			}
		}
		if a.point == "tx.commit.write" && r.err == nil {
			p.writes++
			if t := k.sc.Torn; t != nil && t.Proc == p.idx && (t.All || t.NthWrite == p.writes) && a.idx > 1 {
				r.split = 1 + int(float64(a.idx-1)*t.Frac)
				if r.split >= a.idx {
					r.split = a.idx - 1
				}
				k.Stats.fault("torn-write")
			}
		}
		if a.point == "tx.commit.write.mid" {
			if t := k.sc.Torn; t != nil && t.Proc == p.idx && t.FailErrno != "" && (t.All || t.NthWrite == p.writes) {
				r.err = &os.PathError{Op: "write", Path: "temp", Err: vhook.ErrnoByName(t.FailErrno)}
				k.Stats.fault("short-write:" + t.FailErrno)
			}
		}
	}
	if k.lastRun != g {
		k.Stats.Switches++
	}
	k.lastRun = g
	for i, pg := range k.parked {
		if pg == g {
			k.parked = append(k.parked[:i], k.parked[i+1:]...)
			break
		}
	}
	a.resume <- r
}

const idleLimit = 2 * time.Hour

// waitArrival lets simulated time advance until some goroutine reaches a
// scheduling point or a process ends. It returns false after idleLimit.
func (k *Kernel) waitArrival() bool {
	t := time.NewTimer(idleLimit)
	defer t.Stop()
	select {
	case a := <-k.inbox:
		k.pending = append(k.pending, a) // handled by the next drain()
		return true
	case <-t.C:
		return false
	}
}

// Run drives the scenario to completion. It must be called from the root
// goroutine of a synctest bubble.
func (k *Kernel) Run() {
	k.start = time.Now()
	k.ctlGoid = curGoid()
	k.inbox = make(chan arrival, 4096) // must be created inside the bubble
	vhook.Install(k)
	defer vhook.Install(nil)

	if k.sc.Knobs.FreeRun {
		k.free.Store(true)
	}
	k.strat = NewStrategy(k.sc.Sched, len(k.sc.Procs))
	for i := range k.sc.Procs {
		p := &Proc{idx: i, spec: &k.sc.Procs[i]}
		k.procs = append(k.procs, p)
	}
	for _, p := range k.procs {
		go k.procMain(p)
	}

	maxSteps := k.sc.MaxSteps
	if maxSteps == 0 {
		maxSteps = 20000
	}
	for {
		synctest.Wait()
		k.progress.Add(1)
		k.drain()
		if k.allDone() && len(k.parked) == 0 {
			break
		}
		if int(k.step.Load()) >= maxSteps {
			k.LimitHit = true
			k.logf("step limit")
			k.abort()
			break
		}
		if k.Now() > k.sc.maxSimTime() {
			k.Hang = fmt.Sprintf("simulated time limit exceeded: %v", k.Now())
			k.logf("time limit")
			k.abort()
			break
		}
		nsl := k.sleepers()
		if len(k.parked) == 0 {
			// nothing is runnable: let simulated time advance to the next timer of
			// csvq (retry loops, deadlines). If there is none, only the idle-limit
			// timer of the controller remains: that is a deadlock.
			k.Stats.TimeAdvances++
			k.logf("time")
			if !k.waitArrival() {
				k.Hang = "deadlock or no progress within " + idleLimit.String() + " of simulated time: no runnable goroutine; " + k.describeBlocked() + "\n" + blockedStacks()
				k.logf("hang")
				k.abort()
				break
			}
			continue
		}
		nopt := len(k.parked)
		if nsl > 0 {
			nopt++
		}
		c := k.dec.Choose(nopt, func(r *Rng) int { return k.strat.choose(r, k, nsl > 0) })
		k.step.Add(1)
		if c >= len(k.parked) {
			k.Stats.TimeAdvances++
			k.logf("%d time", k.step.Load())
			if !k.waitArrival() {
				k.Hang = "no progress within the idle limit; " + k.describeBlocked()
				k.abort()
				break
			}
			continue
		}
		g := k.parked[c]
		k.logf("%d run g%d", k.step.Load(), g.id)
		k.resume(g)
	}
	k.Stats.Steps = int(k.step.Load())
	k.Stats.SimTime = k.Now()
	// let stragglers (leaked goroutines parked at a yield) finish
	k.free.Store(true)
	for i := 0; i < 100; i++ {
		synctest.Wait()
		k.progress.Add(1)
		k.drain()
		if len(k.parked) == 0 {
			break
		}
		for len(k.parked) > 0 {
			k.resume(k.parked[0])
		}
	}
}

func (k *Kernel) allDone() bool {
	for _, p := range k.procs {
		if !p.done {
			return false
		}
	}
	return true
}

// blockedStacks returns the stacks of the goroutines that are blocked inside
// csvq (not parked by the scheduler), for the report of a hang.
func blockedStacks() string {
	buf := make([]byte, 1<<20)
	n := runtime.Stack(buf, true)
	var keep []string
	for _, g := range strings.Split(string(buf[:n]), "\n\n") {
		if strings.Contains(g, "synctest bubble") && strings.Contains(g, "mithrandie/csvq") && !strings.Contains(g, "(*Kernel).park") && !strings.Contains(g, "(*Kernel).Run(") {
			lines := strings.Split(g, "\n")
			if len(lines) > 13 {
				lines = lines[:13]
			}
			keep = append(keep, strings.Join(lines, "\n"))
		}
	}
	return strings.Join(keep, "\n--\n")
}

func (k *Kernel) describeBlocked() string {
	var b strings.Builder
	for _, g := range k.glist {
		if g.cur == nil && !g.proc.done {
			fmt.Fprintf(&b, "g%d(p%d) after %s; ", g.id, g.proc.idx, g.lastPoint)
		}
	}
	return b.String()
}

// abort switches to free running: cancel everything, release everyone.
func (k *Kernel) abort() {
	k.free.Store(true)
	for _, p := range k.procs {
		if p.cancel != nil {
			p.cancel()
		}
	}
	for len(k.parked) > 0 {
		k.resume(k.parked[0])
	}
}

// ---------------------------------------------------------------------------

type stampWriter struct {
	k   *Kernel
	buf bytes.Buffer
	st  []OutStamp
	// output fault: the failAt-th write that is not a harness marker fails with
	// ENOSPC (and every later one too when failAll is set: a full device)
	failAt  int
	failAll bool
	n       int
	failed  int
	// the last harness marker ("@X ...") the process printed
	lastMarker string
}

func (w *stampWriter) Write(b []byte) (int, error) {
	if w.failAt > 0 && !bytes.HasPrefix(b, []byte("@")) {
		w.n++
		if w.n == w.failAt || (w.failAll && w.n > w.failAt) {
			w.failed++
			return 0, &os.PathError{Op: "write", Path: "/dev/stdout", Err: syscall.ENOSPC}
		}
	}
	w.buf.Write(b)
	if bytes.HasPrefix(b, []byte("@")) {
		w.lastMarker = strings.TrimSpace(string(b))
	}
	w.st = append(w.st, OutStamp{Step: w.k.step.Load(), Time: time.Since(w.k.start), Text: string(b)})
	return len(b), nil
}

func (w *stampWriter) Close() error { return nil }

type bufCloser struct{ bytes.Buffer }

func (b *bufCloser) Close() error { return nil }

var _ = strconv.Itoa
var _ = syscall.EIO

func ctlPath(path, suffix string) string {
	return filepath.Join(filepath.Dir(path), "."+filepath.Base(path)+suffix)
}

// envFault sets up a real condition under which the file-system call that
// follows the named step fails, and returns the function that removes it.
func envFault(point, path string) func() {
	exists := func(p string) bool { _, err := os.Lstat(p); return err == nil }
	block := func(p string) func() {
		if exists(p) {
			return nil
		}
		if err := os.WriteFile(p, nil, 0600); err != nil {
			return nil
		}
		return func() { _ = os.Remove(p) }
	}
	switch point {
	case "cf.lock.create", "cf.rlock.createlock":
		return block(ctlPath(path, ".lock"))
	case "cf.temp.create":
		return block(ctlPath(path, ".temp"))
	case "h.create.file":
		return block(path)
	case "h.open.read", "h.open.update":
		hidden := path + ".hidden~"
		if !exists(path) || exists(hidden) {
			return nil
		}
		if err := os.Rename(path, hidden); err != nil {
			return nil
		}
		return func() { _ = os.Rename(hidden, path) }
	}
	return nil
}
