//go:build !race

package sim

func raceDisable() {}
func raceEnable()  {}

const RaceBuild = false
