package sim

import (
	"bytes"
	"encoding/base64"
	"fmt"
	"golang.org/x/text/encoding"
	"golang.org/x/text/encoding/japanese"
	"os"
	"os/exec"
	"path/filepath"
	"sort"
	"strings"
	"testing"
	"time"
	"unicode/utf16"
)

// C19 (fault and schedule part): whatever faults hit a load or a write, csvq
// terminates with exit code 0 or a documented error; it never reports an
// internal Fatal Error, panics or hangs, and every table it loads is
// rectangular.

type c19Meta struct {
	Format   string            `json:"format"`
	Source   string            `json:"source"` // file | stdin
	Table    string            `json:"table"`
	Flags    map[string]string `json:"flags"`
	Stmts    []string          `json:"stmts"`
	Fault    string            `json:"fault"`
	Injected bool              `json:"injected"`
	Encoding string            `json:"encoding"`
	Trunc    int               `json:"trunc"`
}

var c19Cells = []string{"", "a", "b c", "x,y", "q\"q", "é", "日本", "tab\tin", "colon:in", "007", "-1.5", "true", "null", "  pad  ", "long-long-long-long-value", "cr\r", "a\r\nb", "nl\n", "\r", "q\"\r"}

// cells whose encoded and decoded lengths differ: half-width katakana (1 byte in
// Shift_JIS, 3 in UTF-8), full-width text (2 bytes in Shift_JIS and UTF-16, 3 in UTF-8)
var c19WideCells = []string{"ｱｲｳｴｵｶｷｸｹｺ", "ｻｼｽｾｿﾀﾁﾂﾃﾄﾅﾆﾇﾈﾉ", "東京都千代田区", "大阪府大阪市北区梅田", "ｶﾅ", "日本語", "ﾊﾋﾌﾍﾎﾏﾐﾑﾒﾓﾔﾕﾖ", "神奈川県横浜市"}

func c19Content(format string, rows int, r *Rng, lb string, wide bool) string {
	var b strings.Builder
	cell := func() string {
		if wide && r.Bool(0.85) {
			return c19WideCells[r.Intn(len(c19WideCells))]
		}
		return c19Cells[r.Intn(len(c19Cells))]
	}
	plain := func() string {
		return strings.NewReplacer(",", "_", "\"", "_", "\t", "_", ":", "_", " ", "_", "\r", "_", "\n", "_").Replace(cell())
	}
	switch format {
	case "csv", "tsv":
		d := ","
		if format == "tsv" {
			d = "\t"
		}
		b.WriteString("c1" + d + "c2" + d + "c3" + lb)
		for i := 0; i < rows; i++ {
			var f []string
			for j := 0; j < 3; j++ {
				c := cell()
				if format == "tsv" {
					c = strings.ReplaceAll(c, "\t", " ")
				}
				if strings.ContainsAny(c, ",\"\t\n\r") || r.Bool(0.1) {
					c = "\"" + strings.ReplaceAll(c, "\"", "\"\"") + "\""
				}
				f = append(f, c)
			}
			b.WriteString(strings.Join(f, d) + lb)
		}
	case "ltsv":
		for i := 0; i < rows; i++ {
			fmt.Fprintf(&b, "c1:%s\tc2:%s\tc3:%s%s", plain(), plain(), plain(), lb)
		}
	case "fixed":
		b.WriteString("c1        c2        c3        " + lb)
		for i := 0; i < rows; i++ {
			fmt.Fprintf(&b, "%-10.9s%-10.9s%-10.9s%s", plain(), plain(), plain(), lb)
		}
	case "json":
		b.WriteString("[")
		for i := 0; i < rows; i++ {
			if i > 0 {
				b.WriteString(",")
			}
			fmt.Fprintf(&b, "{\"c1\":%q,\"c2\":%q,\"c3\":%d}", plain(), plain(), r.Intn(100))
		}
		b.WriteString("]" + lb)
	case "jsonl":
		for i := 0; i < rows; i++ {
			fmt.Fprintf(&b, "{\"c1\":%q,\"c2\":%q,\"c3\":%d}%s", plain(), plain(), r.Intn(100), lb)
		}
	}
	return b.String()
}

func encodeAs(s string, enc string) []byte {
	switch enc {
	case "UTF8M":
		return append([]byte{0xEF, 0xBB, 0xBF}, s...)
	case "UTF16LE", "UTF16LEM", "UTF16BE", "UTF16BEM", "UTF16":
		u := utf16.Encode([]rune(s))
		var b bytes.Buffer
		be := enc == "UTF16BE" || enc == "UTF16BEM" || enc == "UTF16"
		if enc == "UTF16LEM" {
			b.Write([]byte{0xFF, 0xFE})
		}
		if enc == "UTF16BEM" || enc == "UTF16" {
			b.Write([]byte{0xFE, 0xFF})
		}
		for _, c := range u {
			if be {
				b.WriteByte(byte(c >> 8))
				b.WriteByte(byte(c))
			} else {
				b.WriteByte(byte(c))
				b.WriteByte(byte(c >> 8))
			}
		}
		return b.Bytes()
	case "SJIS":
		if out, err := encoding.ReplaceUnsupported(japanese.ShiftJIS.NewEncoder()).Bytes([]byte(s)); err == nil {
			return out
		}
	}
	return []byte(s)
}

var extOf = map[string]string{"csv": ".csv", "tsv": ".tsv", "ltsv": ".ltsv", "fixed": ".txt", "json": ".json", "jsonl": ".jsonl"}

type c19 struct{}

func init() { Register(c19{}) }

func (c19) Prop() string { return "C19" }

func (c19) Gen(seed uint64, tier string) *Scenario {
	r := Sub(seed, "c19")
	m := &c19Meta{Flags: map[string]string{}}
	m.Format = r.PickS("csv", "csv", "tsv", "ltsv", "fixed", "json", "jsonl")
	m.Source = r.PickS("file", "file", "stdin")
	rows := r.Range(0, 40)
	if r.Bool(0.08) {
		rows = r.Range(290, 420) // around the loader's 300-record regrow threshold
	}
	lb := r.PickS("\n", "\n", "\r\n", "\r")
	m.Encoding = r.PickS("UTF8", "UTF8", "UTF8", "UTF8M", "UTF16LE", "UTF16BEM", "UTF16LEM", "UTF16BE", "SJIS", "SJIS")
	// text whose size in the file and size after decoding differ a lot (the loaders
	// estimate capacities from the two), more often in files beyond the threshold
	wide := m.Encoding != "UTF8" && m.Encoding != "UTF8M" && r.Bool(0.4)
	if wide && r.Bool(0.3) {
		rows = r.Range(290, 720)
	}
	text := c19Content(m.Format, rows, r, lb, wide)
	data := encodeAs(text, m.Encoding)
	if r.Bool(0.35) && len(data) > 0 {
		m.Trunc = r.Intn(len(data)) // torn input: cut mid-quote, mid-UTF-16 unit, mid-JSON token ...
		data = data[:m.Trunc]
	}
	// option vector (swarm): declared encoding may be right, AUTO, or wrong
	switch r.Intn(4) {
	case 0:
		m.Flags["ENCODING"] = "AUTO"
	case 1, 2:
		m.Flags["ENCODING"] = m.Encoding
	default:
		m.Flags["ENCODING"] = r.PickS("UTF8", "UTF16", "SJIS", "UTF16LE", "UTF8M")
	}
	declared := strings.ToUpper(m.Format)
	if r.Bool(0.15) {
		declared = r.PickS("CSV", "TSV", "LTSV", "FIXED", "JSON", "JSONL") // format mismatch on purpose
	}
	if r.Bool(0.3) {
		m.Flags["NO_HEADER"] = "true"
	}
	if r.Bool(0.3) {
		m.Flags["ALLOW_UNEVEN_FIELDS"] = "true"
	}
	if r.Bool(0.2) {
		m.Flags["WITHOUT_NULL"] = "true"
	}
	if declared == "FIXED" {
		m.Flags["DELIMITER_POSITIONS"] = r.PickS("SPACES", "[10, 20, 30]", "[3, 7]", "S[2, 5]")
	}
	if declared == "CSV" && r.Bool(0.2) {
		m.Flags["DELIMITER"] = r.PickS(";", "|", "\\t", ",")
	}
	if (declared == "JSON" || declared == "JSONL") && r.Bool(0.3) {
		m.Flags["JSON_QUERY"] = r.PickS("", "{}", "[0]", "c1", "{c1, c2}", "[")
	}
	sc := &Scenario{Prop: "C19"}
	src := "STDIN"
	ps := ProcSpec{CPU: r.Pick(1, 1, 2, 4), WaitTimeoutS: 0.3000001, RetryDelayNs: 10001009, Quiet: true, Format: "CSV", Shell: true}
	if r.Bool(0.4) {
		// every encoder sees the loaded bytes, not only the CSV one
		ps.Format = r.PickS("TEXT", "BOX", "JSON", "JSONL", "LTSV", "GFM", "ORG", "FIXED", "TSV")
	}
	m.Flags["IMPORT_FORMAT"] = declared
	if m.Source == "stdin" {
		ps.HasStdin = true
		ps.StdinB64 = base64.StdEncoding.EncodeToString(data)
	} else {
		name := "t" + extOf[m.Format]
		if r.Bool(0.2) {
			name = "t.dat" // format only known from --import-format
		}
		m.Table = name
		src = "`" + name + "`"
		sc.Files = append(sc.Files, FileSpec{Name: name, B64: base64.StdEncoding.EncodeToString(data)})
	}
	sc.Files = append(sc.Files, FileSpec{Name: "other.csv", Content: "k,v\n1,one\n2,two\n"})
	sc.Files = append(sc.Files, FileSpec{Name: "none.csv", Content: "k,v\n"})
	switch r.Intn(15) {
	case 14:
		// SELECT ... INTO with wildcards over sources with no, one or several columns
		m.Stmts = []string{"VAR @a; VAR @b;", "SELECT * INTO @a FROM DUAL;", fmt.Sprintf("SELECT * INTO @a FROM %s;", src), fmt.Sprintf("SELECT *, * INTO @a, @b FROM %s LIMIT 1;", src), "SELECT *, * INTO @a, @b FROM DUAL;",
			"SELECT * INTO @a, @b FROM other WHERE k = 1;", "SELECT * INTO @a FROM none;", "SELECT k INTO @a FROM other;", "ALTER TABLE none DROP (k, v);", "SELECT * INTO @a FROM none;", "SELECT * FROM none;", "SELECT COUNT(*) INTO @a FROM none;",
			fmt.Sprintf("SELECT c1 INTO @a FROM %s LIMIT 1;", src), "PRINT @a;", "ROLLBACK;"}
	case 11, 12:
		// joins of every kind with the loaded table (possibly empty or torn) and with a table that
		// has no records on either side
		dir := r.PickS("FULL OUTER", "FULL", "LEFT", "RIGHT", "INNER", "CROSS", "NATURAL", "FULL OUTER")
		on := " ON s.c1 = o.v"
		if dir == "CROSS" || dir == "NATURAL" {
			on = ""
		}
		m.Stmts = []string{fmt.Sprintf("SELECT * FROM %s s %s JOIN other o%s;", src, dir, on), fmt.Sprintf("SELECT * FROM other o %s JOIN %s s%s;", dir, src, on),
			fmt.Sprintf("SELECT * FROM none n %s JOIN other o%s;", dir, strings.ReplaceAll(on, "s.c1", "n.v")), fmt.Sprintf("SELECT * FROM other o %s JOIN none n%s;", dir, strings.ReplaceAll(on, "s.c1", "n.v")),
			fmt.Sprintf("SELECT * FROM (SELECT * FROM other WHERE FALSE) e %s JOIN %s s%s;", dir, src, strings.ReplaceAll(strings.ReplaceAll(on, "o.v", "e.v"), "s.c1", "s.c1")),
			fmt.Sprintf("SELECT * FROM none a %s JOIN none b%s;", dir, strings.ReplaceAll(strings.ReplaceAll(on, "s.c1", "a.k"), "o.v", "b.k"))}
	case 13:
		// every clause over a table without records
		m.Stmts = []string{"SELECT k, COUNT(*), MAX(v) FROM none GROUP BY k;", "SELECT COUNT(*), SUM(k), LISTAGG(v, ',') FROM none;", "SELECT k, RANK() OVER (ORDER BY k), SUM(k) OVER (PARTITION BY v) FROM none;",
			"SELECT DISTINCT v FROM none ORDER BY v LIMIT 1 OFFSET 1;", "SELECT k FROM none UNION SELECT k FROM other EXCEPT SELECT k FROM none INTERSECT SELECT k FROM other;",
			fmt.Sprintf("SELECT * FROM %s WHERE c1 IN (SELECT v FROM none) OR EXISTS (SELECT 1 FROM none);", src), "UPDATE none SET v = 1; DELETE FROM none; INSERT INTO none SELECT k, v FROM none;",
			fmt.Sprintf("REPLACE INTO none (k, v) USING (k) SELECT c1, c2 FROM %s;", src), "SELECT * FROM none;", "ROLLBACK;"}
	case 10:
		// an existing table "created" again: the statement loads it to compare the columns
		m.Stmts = []string{"CREATE TABLE IF NOT EXISTS other (k, v);", fmt.Sprintf("SELECT COUNT(*) FROM %s;", src), "CREATE TABLE IF NOT EXISTS `other.csv` (k, v);", "COMMIT;"}
	case 8:
		// the same file through the table cache and through an inline table function
		if m.Source == "file" {
			m.Stmts = []string{fmt.Sprintf("SELECT COUNT(*) FROM %s;", src), fmt.Sprintf("SELECT * FROM CSV_INLINE(',', %s);", src), fmt.Sprintf("SELECT * FROM JSON_INLINE('', %s);", src)}
		} else {
			m.Stmts = []string{"SELECT * FROM STDIN;", "SELECT COUNT(*) FROM STDIN;"}
		}
	case 9:
		if m.Source == "file" {
			m.Stmts = []string{fmt.Sprintf("UPDATE %s SET c1 = 'u';", src), fmt.Sprintf("SELECT * FROM CSV_INLINE(',', %s);", src), "ROLLBACK;"}
		} else {
			m.Stmts = []string{"SELECT c1 FROM STDIN ORDER BY c1;"}
		}
	case 0, 1:
		m.Stmts = []string{fmt.Sprintf("SELECT * FROM %s;", src)}
	case 2:
		m.Stmts = []string{fmt.Sprintf("SELECT COUNT(*) FROM %s;", src), fmt.Sprintf("SELECT * FROM %s LIMIT 3;", src)}
	case 3:
		m.Stmts = []string{fmt.Sprintf("SELECT * FROM %s s JOIN other o ON o.k = 1;", src)}
	case 4:
		m.Stmts = []string{fmt.Sprintf("UPDATE %s SET c1 = 'x';", src), "COMMIT;"}
	case 5:
		m.Stmts = []string{fmt.Sprintf("INSERT INTO %s VALUES ('p', 'q', 'r');", src), "COMMIT;", fmt.Sprintf("SELECT * FROM %s;", src)}
	case 6:
		m.Stmts = []string{fmt.Sprintf("ALTER TABLE %s ADD z DEFAULT 1;", src), fmt.Sprintf("DELETE FROM %s WHERE c1 = 'a';", src), "COMMIT;"}
	default:
		m.Stmts = []string{fmt.Sprintf("SELECT c1, COUNT(*) FROM %s GROUP BY c1 ORDER BY c1;", src), "CREATE TABLE made.csv (a, b);", "INSERT INTO made.csv VALUES (1, 2);", "COMMIT;"}
	}
	ps.Statements = m.Stmts
	ps.Flags = m.Flags
	// fault plan
	switch r.Intn(13) {
	case 12:
		// the file behind --out is removed by another program while csvq runs (at the k-th yield of the
		// process): whatever csvq wanted to do with it at the end, it ends cleanly
		m.Fault = "rmout"
		ps.Shell = false
		ps.Program = strings.Join(m.Stmts, "\n")
		ps.OutFile = "out.txt"
		ps.Quiet = r.Bool(0.5)
		sc.Mutate = &MutateSpec{File: "out.txt", Mode: "remove", Every: r.Range(1, 40), Max: 1}
	case 11:
		// a program that knows nothing of csvq's lock files keeps writing to the table while csvq works
		// (a log that grows, a file whose modification time moves): csvq ends with whatever it read
		m.Fault = "none"
		if m.Source == "file" {
			m.Fault = "mutate"
			mu := &MutateSpec{File: m.Table, Mode: "touch", Every: r.Pick(1, 1, 2, 3)}
			if r.Bool(0.4) {
				mu.Mode, mu.Every, mu.Max = "append", r.Pick(2, 3, 5), r.Pick(1, 3, 40)
				mu.Line = map[string]string{"csv": "m1,m2,m3\n", "tsv": "m1\tm2\tm3\n", "ltsv": "c1:m1\tc2:m2\tc3:m3\n", "fixed": "m1   m2   m3\n",
					"json": "\n", "jsonl": "{\"c1\":\"m1\",\"c2\":\"m2\",\"c3\":\"m3\"}\n"}[m.Format]
			}
			sc.Mutate = mu
		}
	case 10:
		// the device behind standard output fills up at the n-th write
		m.Fault = "stdout"
		ps.StdoutFailAt = r.Range(1, 5)
		ps.StdoutFailAll = r.Bool(0.5)
		ps.Quiet = r.Bool(0.5)
		ps.Format = r.PickS("CSV", "CSV", "JSONL", "JSON", "FIXED", "TEXT", "LTSV")
		if r.Bool(0.5) {
			// as a non-interactive run: the first error ends the program and the
			// deferred rollback reports what it restores
			ps.Shell = false
			ps.Program = strings.Join(m.Stmts, "\n")
		}
	case 0, 1:
		m.Fault = "none"
	case 2, 3:
		m.Fault = "cancel"
	case 4, 5:
		m.Fault = "fs"
	case 6:
		if m.Source == "stdin" {
			m.Fault = "reader"
			ps.StdinChunk = r.Pick(1, 2, 3, 7, 64)
			if r.Bool(0.5) {
				ps.StdinFailAt = 1 + r.Intn(len(data)+1)
			} else {
				ps.StdinEOFAt = 1 + r.Intn(len(data)+1)
			}
		} else {
			m.Fault = "missing"
			sc.Files = sc.Files[1:]
		}
	case 7:
		if m.Source == "file" {
			m.Fault = "dir-in-place"
			sc.Files[0] = FileSpec{Name: m.Table, Dir: true}
		} else {
			m.Fault = "reader"
			ps.StdinChunk = 1
		}
	case 8:
		m.Fault = "rmrepo"
	default:
		m.Fault = "fs-persistent"
	}
	sc.Procs = []ProcSpec{ps}
	sc.Meta = map[string]string{"workload": mustJSON(m)}
	sc.Knobs = Knobs{RowStride: r.Pick(1, 2, 8), Pool: "lifo", MinPerCore: r.Pick(0, 2, 10)}
	// without --repository: tables are found relative to the working directory
	// (which the rmrepo fault then removes under the process)
	sc.Knobs.RelRepo = r.Bool(0.3) || (m.Fault == "rmrepo" && r.Bool(0.5))
	sc.Sched = GenSched(seed, 1, 300)
	if sc.Sched.Strategy == "delay" {
		sc.Sched.Strategy = "uniform"
	}
	sc.MaxSteps = 300000
	sc.MaxSimS = 120
	return sc
}

var documentedCodes = map[int]bool{0: true, 1: true, 2: true, 4: true, 8: true, 16: true, 32: true, 64: true, 128: true}

func (c19) Eval(t *testing.T, c *Case, dec func(int) *Decider) *Outcome {
	sc := c.Scenario
	var meta c19Meta
	mustUnJSON(sc.Meta["workload"], &meta)
	o := &Outcome{}
	const prop = "C19"
	judge := func(res *RunResult, label string) {
		p := res.Procs[0]
		switch {
		case res.Hang != "":
			o.viol(prop, "never-hangs", "hang", fmt.Sprintf("[%s] %s", label, res.Hang))
			return // nothing else of an unfinished run is judged
		case res.LimitHit:
			o.viol(prop, "never-hangs", "step-limit", fmt.Sprintf("[%s] no termination within %d scheduler steps", label, sc.MaxSteps))
		case res.BubbleErr != "":
			o.viol(prop, "never-hangs", "bubble:"+firstLine(res.BubbleErr), fmt.Sprintf("[%s] %s", label, res.BubbleErr))
		}
		if p.Panic != "" {
			o.viol(prop, "no-panic", "panic:"+errClass(p.Panic), fmt.Sprintf("[%s] panic escaped: %s", label, p.Panic))
		}
		if p.Fatal {
			o.viol(prop, "no-internal-error", "fatal-error:"+errClass(p.ErrText), fmt.Sprintf("[%s] internal Fatal Error: %s", label, p.ErrText))
		}
		if p.ExitCode != 0 && !p.IsQueryError && meta.Fault == "stdout" && p.StdoutFaults > 0 && strings.Contains(p.ErrText, "no space left on device") {
			// csvq passes the operating system's error of a failed write to
			// standard output on unchanged, with the general code 1 ("errors inside
			// the csvq") instead of 16; both are documented codes, the message names
			// the failure: accepted (noted in DESIGN.md as an observation)
			o.Stats.probe("stdout-write-error-reported-raw")
		} else if p.ExitCode != 0 && !p.IsQueryError {
			o.viol(prop, "documented-error", "undocumented-error-type:"+p.ErrType, fmt.Sprintf("[%s] error that is not a csvq error with a code: %s: %s", label, p.ErrType, p.ErrText))
		}
		for _, l := range strings.Split(p.Stdout+"\n"+p.Stderr, "\n") {
			switch {
			case strings.HasPrefix(l, "@UNEVEN "):
				o.viol(prop, "rectangular", "uneven-table", fmt.Sprintf("[%s] a loaded table is not rectangular: %s", label, l))
			case strings.Contains(l, "Fatal Error"):
				o.viol(prop, "no-internal-error", "fatal-error:"+errClass(l), fmt.Sprintf("[%s] internal Fatal Error: %s", label, l))
			case strings.HasPrefix(l, "@ERR "):
				o.Stats.probe("statement-error")
			}
		}
		if p.StdinErrorReturned {
			o.Stats.probe("stdin-read-error-delivered")
			if p.ExitCode == 0 && !strings.Contains(p.Stdout, "@ERR ") {
				o.viol(prop, "documented-error", "read-error-swallowed",
					fmt.Sprintf("[%s] a read from standard input returned an error, but every statement succeeded and csvq ended with exit code 0 (the table was used although it could not be read completely)", label))
			}
		}
		if p.ExitCode == 0 {
			o.Stats.probe("end:success")
		} else {
			o.Stats.probe("end:error-code")
		}
	}
	base := *sc
	base.Cancels, base.Faults, base.RmRepoAt = nil, nil, 0
	injectedKind := meta.Fault == "cancel" || meta.Fault == "fs" || meta.Fault == "fs-persistent" || meta.Fault == "rmrepo"
	var resA *RunResult
	if injectedKind {
		resA, _ = Execute(t, &base, dec(0))
		o.Runs++
		o.addStats(resA.Stats)
		o.LogHash += resA.LogHash
		o.TraceHash += resA.TraceHash
		judge(resA, "without injected fault")
		if !meta.Injected {
			r := Sub(c.Seed, "inject")
			y := resA.ProcYields[0]
			if y < 1 {
				y = 1
			}
			switch meta.Fault {
			case "cancel":
				sc.Cancels = []CancelSpec{{Proc: 0, AtYield: 1 + r.Intn(y)}}
			case "rmrepo":
				sc.RmRepoAt = 1 + r.Intn(y)
			default:
				var pts []string
				for pt := range resA.StepHits[0] {
					pts = append(pts, pt)
				}
				sort.Strings(pts)
				if len(pts) > 0 {
					pt := pts[r.Intn(len(pts))]
					f := FaultSpec{Proc: 0, Point: pt, Nth: 1 + r.Intn(resA.StepHits[0][pt]), Errno: faultErrnos[r.Intn(len(faultErrnos))], Mode: r.PickS("", "env")}
					if meta.Fault == "fs-persistent" {
						f.Persistent, f.Mode = true, ""
					}
					sc.Faults = []FaultSpec{f}
				}
			}
			meta.Injected = true
			sc.Meta["workload"] = mustJSON(&meta)
		}
	}
	res, _ := Execute(t, sc, dec(1))
	o.Runs++
	o.addStats(res.Stats)
	o.LogHash += res.LogHash
	o.TraceHash += res.TraceHash
	o.Trace = tail(res.Log, 200)
	o.NonTrivial = true
	o.Stats.probe("fault:" + meta.Fault)
	if sc.Knobs.RelRepo {
		o.Stats.probe("relative-repository")
		if meta.Fault == "rmrepo" {
			o.Stats.probe("working-directory-removed")
		}
	}
	if meta.Trunc > 0 {
		o.Stats.probe("torn-input")
	}
	judge(res, "fault="+meta.Fault)

	// real-process tier: exit-code mapping and stderr of the real binary
	if bin := os.Getenv("VERIF_CSVQ_BIN"); bin != "" && (meta.Fault == "none" || meta.Fault == "missing" || meta.Fault == "dir-in-place") && Sub(c.Seed, "real").Bool(0.5) {
		code, stderr, err := realRun(bin, sc, &meta)
		o.RealProc++
		if err != nil && strings.Contains(err.Error(), "did not terminate within") {
			// once more: a process that hangs twice in a row hangs; a single stall on a loaded machine is only noted
			o.Notes = append(o.Notes, "a real-process run stalled once: "+err.Error())
			code, stderr, err = realRun(bin, sc, &meta)
			o.RealProc++
		}
		if err != nil {
			o.viol(prop, "never-hangs", "real-process:"+errClass(err.Error()), err.Error())
		} else {
			if !documentedCodes[code] && !(code >= 128 && code < 192) {
				o.viol(prop, "documented-error", fmt.Sprintf("real-exit-code-%d", code), fmt.Sprintf("the real binary exited with undocumented code %d: %s", code, firstLine(stderr)))
			}
			for _, bad := range []string{"Fatal Error", "panic:", "goroutine ", "fatal error:"} {
				if strings.Contains(stderr, bad) {
					o.viol(prop, "no-internal-error", "real-stderr:"+bad, fmt.Sprintf("the real binary printed %q: %s", bad, firstLine(stderr)))
				}
			}
			o.Stats.probe("real-process-run")
		}
	}
	// syscall-level fault enumeration of the real binary
	if bin := os.Getenv("VERIF_CSVQ_BIN"); bin != "" && (meta.Fault == "none" || meta.Fault == "stdout") && len(o.Violations) == 0 && straceOK() {
		p, maxRuns := 0.04, 60
		if c.Tier == "thorough" {
			p, maxRuns = 0.15, 150
		}
		if Sub(c.Seed, "inject-pick").Bool(p) && straceTierAllowed(o) {
			straceTierTimed(func() { injectTier(o, bin, c, sc, &meta, maxRuns) })
		}
	}
	o.Sample = map[string]interface{}{"seed": c.Seed, "format": meta.Format, "source": meta.Source, "encoding": meta.Encoding, "truncated_at": meta.Trunc, "flags": meta.Flags,
		"statements": meta.Stmts, "fault": meta.Fault, "cancels": sc.Cancels, "faults": sc.Faults, "rm_repo_at": sc.RmRepoAt, "exit": res.Procs[0].ExitCode, "err": firstLine(res.Procs[0].ErrText)}
	return o
}

func (c19) Shrinks(c *Case) []*Case {
	var out []*Case
	// fewer statements
	var meta c19Meta
	mustUnJSON(c.Scenario.Meta["workload"], &meta)
	for i := len(meta.Stmts) - 1; i >= 0 && len(meta.Stmts) > 1; i-- {
		cand := cloneCase(c)
		var m c19Meta
		mustUnJSON(cand.Scenario.Meta["workload"], &m)
		m.Stmts = append(m.Stmts[:i:i], m.Stmts[i+1:]...)
		cand.Scenario.Procs[0].Statements = m.Stmts
		if !cand.Scenario.Procs[0].Shell {
			cand.Scenario.Procs[0].Program = strings.Join(m.Stmts, "\n")
		}
		cand.Scenario.Meta["workload"] = mustJSON(&m)
		out = append(out, cand)
	}
	// shorter input
	for fi := range c.Scenario.Files {
		b := c.Scenario.Files[fi].Bytes()
		if len(b) > 8 && c.Scenario.Files[fi].B64 != "" {
			cand := cloneCase(c)
			cand.Scenario.Files[fi].B64 = base64.StdEncoding.EncodeToString(b[:len(b)/2])
			out = append(out, cand)
		}
	}
	if b := c.Scenario.Procs[0].StdinBytes(); len(b) > 8 {
		cand := cloneCase(c)
		cand.Scenario.Procs[0].StdinB64 = base64.StdEncoding.EncodeToString(b[:len(b)/2])
		out = append(out, cand)
	}
	if c.Scenario.Procs[0].CPU > 1 {
		cand := cloneCase(c)
		cand.Scenario.Procs[0].CPU = 1
		out = append(out, cand)
	}
	return out
}

var flagToCLI = map[string]string{"IMPORT_FORMAT": "--import-format", "DELIMITER": "--delimiter", "ALLOW_UNEVEN_FIELDS": "--allow-uneven-fields",
	"DELIMITER_POSITIONS": "--delimiter-positions", "JSON_QUERY": "--json-query", "ENCODING": "--encoding", "NO_HEADER": "--no-header", "WITHOUT_NULL": "--without-null"}

func realRun(bin string, sc *Scenario, meta *c19Meta) (int, string, error) {
	setupBase()
	dir, err := os.MkdirTemp(BaseDir, "real19-")
	if err != nil {
		return 0, "", err
	}
	defer os.RemoveAll(dir)
	if err := writeFiles(dir, sc.Files); err != nil {
		return 0, "", err
	}
	args := []string{"--repository", dir, "--quiet", "--cpu", "1", "--format", "CSV"}
	var names []string
	for n := range meta.Flags {
		names = append(names, n)
	}
	sort.Strings(names)
	for _, n := range names {
		v := meta.Flags[n]
		if v == "true" {
			args = append(args, flagToCLI[n])
		} else if v != "false" {
			args = append(args, flagToCLI[n], v)
		}
	}
	args = append(args, strings.Join(meta.Stmts, " "))
	cmd := exec.Command(bin, args...)
	cmd.Dir = filepath.Join(BaseDir, "cwd")
	var stderr bytes.Buffer
	cmd.Stderr = &stderr
	if sc.Procs[0].HasStdin {
		cmd.Stdin = bytes.NewReader(sc.Procs[0].StdinBytes())
	}
	done := make(chan error, 1)
	if err := cmd.Start(); err != nil {
		return 0, "", err
	}
	go func() { done <- cmd.Wait() }()
	select {
	case err := <-done:
		code := 0
		if ee, ok := err.(*exec.ExitError); ok {
			code = ee.ExitCode()
		} else if err != nil {
			return 0, stderr.String(), err
		}
		return code, stderr.String(), nil
	case <-time.After(15 * time.Second):
		_ = cmd.Process.Kill()
		return 0, stderr.String(), fmt.Errorf("the real binary did not terminate within 15 s (args %v)", args)
	}
}

// ---------------------------------------------------------------------------
// syscall-level fault enumeration of the REAL binary (independent of the hooks):
// strace makes the n-th system call of a class fail with an errno, for n = 1,
// 2, ... until the process makes fewer calls of that class. Whatever fails,
// csvq must end with a documented code and without an internal error.

var injectClasses = []string{
	"openat:ENOENT", "openat:EMFILE", "openat:EACCES", "newfstatat,stat,lstat:EACCES", "fstat:EIO", "read,pread64:EIO",
	"write,pwrite64:ENOSPC", "ftruncate:EIO", "lseek:EIO", "rename,renameat,renameat2:EACCES", "unlink,unlinkat:EACCES",
	"flock:ENOLCK", "getcwd:ENOENT", "getdents64:EIO", "close:EIO", "mkdir,mkdirat:EACCES",
}

type injectResult struct {
	code     int
	stderr   string
	injected bool
	hang     bool
}

func straceInject(bin string, sc *Scenario, meta *c19Meta, class, errno string, n int, rel bool) (*injectResult, error) {
	setupBase()
	dir, err := os.MkdirTemp(BaseDir, "inject-")
	if err != nil {
		return nil, err
	}
	defer os.RemoveAll(dir)
	if err := writeFiles(dir, sc.Files); err != nil {
		return nil, err
	}
	logf := dir + ".strace"
	defer os.Remove(logf)
	args := []string{"-f", "-o", logf, "-e", "trace=" + class, "-e", fmt.Sprintf("inject=%s:error=%s:when=%d", class, errno, n), bin}
	if !rel {
		args = append(args, "--repository", dir)
	}
	args = append(args, "--cpu", "1", "--format", "CSV", "--wait-timeout", "0.3")
	if meta.Fault != "stdout" {
		args = append(args, "--quiet")
	}
	var names []string
	for fn := range meta.Flags {
		names = append(names, fn)
	}
	sort.Strings(names)
	for _, fn := range names {
		v := meta.Flags[fn]
		if v == "true" {
			args = append(args, flagToCLI[fn])
		} else if v != "false" {
			args = append(args, flagToCLI[fn], v)
		}
	}
	args = append(args, strings.Join(meta.Stmts, " "))
	cmd := exec.Command("strace", args...)
	cmd.Dir = filepath.Join(BaseDir, "cwd")
	if rel {
		cmd.Dir = dir
	}
	// without PWD the Go runtime asks the kernel for the working directory
	for _, e := range os.Environ() {
		if !strings.HasPrefix(e, "PWD=") {
			cmd.Env = append(cmd.Env, e)
		}
	}
	cmd.Env = append(cmd.Env, "GOMAXPROCS=1")
	var stderr bytes.Buffer
	cmd.Stderr = &stderr
	if sc.Procs[0].HasStdin {
		cmd.Stdin = bytes.NewReader(sc.Procs[0].StdinBytes())
	}
	done := make(chan error, 1)
	if err := cmd.Start(); err != nil {
		return nil, err
	}
	go func() { done <- cmd.Wait() }()
	res := &injectResult{}
	select {
	case err := <-done:
		if ee, ok := err.(*exec.ExitError); ok {
			res.code = ee.ExitCode()
		} else if err != nil {
			return nil, err
		}
	case <-time.After(30 * time.Second):
		_ = cmd.Process.Kill()
		<-done
		res.hang = true
	}
	res.stderr = stderr.String()
	if b, err := os.ReadFile(logf); err == nil {
		res.injected = bytes.Contains(b, []byte("(INJECTED)"))
	}
	return res, nil
}

// injectTier enumerates syscall faults for one scenario. Returns the number of
// runs in which a fault was actually injected.
func injectTier(o *Outcome, bin string, c *Case, sc *Scenario, meta *c19Meta, maxRuns int) {
	const prop = "C19"
	r := Sub(c.Seed, "inject-tier")
	rel := r.Bool(0.5)
	order := r.Perm(len(injectClasses))
	runs := 0
	for _, ci := range order {
		f := strings.SplitN(injectClasses[ci], ":", 2)
		for n := 1; n <= 25 && runs < maxRuns; n++ {
			res, err := straceInject(bin, sc, meta, f[0], f[1], n, rel)
			runs++
			o.RealProc++
			if err != nil {
				o.Infra = append(o.Infra, "strace run failed: "+err.Error())
				return
			}
			if !res.injected && !res.hang {
				break
			}
			o.Stats.fault("syscall:" + f[0] + ":" + f[1])
			label := fmt.Sprintf("REAL csvq with the %d-th %s failing with %s (relative repository: %v)", n, f[0], f[1], rel)
			switch {
			case res.hang:
				o.viol(prop, "never-hangs", "real-hang:"+f[0], label+" did not end within 30 s: "+firstLine(res.stderr))
			case !documentedCodes[res.code] && !(res.code >= 128 && res.code < 192):
				o.viol(prop, "documented-error", fmt.Sprintf("real-exit-code-%d", res.code), label+fmt.Sprintf(" exited with undocumented code %d: %s", res.code, firstLine(res.stderr)))
			}
			for _, bad := range []string{"Fatal Error", "panic:", "goroutine ", "fatal error:"} {
				if strings.Contains(res.stderr, bad) {
					o.viol(prop, "no-internal-error", "real-stderr:"+bad, label+fmt.Sprintf(" printed %q: %s", bad, tailStr(res.stderr, 1200)))
					break
				}
			}
		}
	}
	o.Stats.probe("syscall-fault-scenarios")
}

func tailStr(s string, n int) string {
	s = strings.TrimSpace(s)
	if len(s) > n {
		return s[:n]
	}
	return s
}
