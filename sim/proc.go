package sim

import (
	"context"
	"errors"
	"fmt"
	"io"
	"reflect"
	"strings"
	"syscall"
	"time"
	"unsafe"

	"github.com/mithrandie/csvq/lib/action"
	"github.com/mithrandie/csvq/lib/option"
	"github.com/mithrandie/csvq/lib/parser"
	"github.com/mithrandie/csvq/lib/query"
)

// faultReader is the simulated stdin: short reads, early EOF, errors.
type faultReader struct {
	errReturned bool
	data        []byte
	pos         int
	chunk       int
	failAt      int
	eofAt       int
	k           *Kernel
}

func (r *faultReader) Read(p []byte) (int, error) {
	if r.failAt > 0 && r.pos >= r.failAt {
		r.errReturned = true
		return 0, &faultErr{"simulated read error"}
	}
	limit := len(r.data)
	if r.eofAt > 0 && r.eofAt < limit {
		limit = r.eofAt
	}
	if r.pos >= limit {
		return 0, io.EOF
	}
	n := len(p)
	if r.chunk > 0 && n > r.chunk {
		n = r.chunk
	}
	if r.pos+n > limit {
		n = limit - r.pos
	}
	if r.failAt > 0 && r.pos+n > r.failAt {
		n = r.failAt - r.pos
		if n == 0 {
			r.errReturned = true
			return 0, &faultErr{"simulated read error"}
		}
	}
	copy(p, r.data[r.pos:r.pos+n])
	r.pos += n
	return n, nil
}

func (r *faultReader) Close() error { return nil }

type faultErr struct{ s string }

func (e *faultErr) Error() string { return e.s }

// procMain is the replica of cli.commandAction + action.Run for one simulated
// csvq process: new session, new transaction, flags, deferred AutoRollback and
// ReleaseResourcesWithErrors, exit-code mapping.
func (k *Kernel) procMain(p *Proc) {
	spec := p.spec
	res := &ProcResult{}
	ctx, cancel := context.WithCancel(context.Background())
	stdout := &stampWriter{k: k, failAt: spec.StdoutFailAt, failAll: spec.StdoutFailAll}
	p.out = stdout
	stderr := &bufCloser{}
	var stdinReader *faultReader

	defer func() {
		if r := recover(); r != nil {
			res.Panic = fmt.Sprint(r)
		}
		cancel()
		if stdinReader != nil {
			res.StdinErrorReturned = stdinReader.errReturned
		}
		res.Stdout = k.Norm(stdout.buf.String())
		if lb := spec.Flags["LINE_BREAK"]; lb == "CR" || lb == "CRLF" {
			// the flag also decides the line break of what is printed: the oracles read
			// the output line by line
			res.Stdout = strings.ReplaceAll(strings.ReplaceAll(res.Stdout, "\r\n", "\n"), "\r", "\n")
		}
		res.Stderr = k.Norm(stderr.String())
		res.Stamps = stdout.st
		res.StdoutFaults = stdout.failed
		k.inbox <- arrival{kind: mDone, proc: p.idx, result: res}
	}()

	// adopt: tell the controller who we are, then wait to be scheduled
	// (not race-transparent on purpose: the controller later calls cancel, and the
	// creation of the context must happen-before that)
	a := arrival{kind: mAdopt, gptr: getg(), point: "proc.start", proc: p.idx, cancel: cancel, resume: make(chan resumeMsg)}
	a.goid, _ = goidAndParent()
	k.inbox <- a
	<-a.resume

	session := query.NewSession()
	session.SetStdout(stdout)
	session.SetStderr(stderr)
	if spec.HasStdin {
		stdinReader = &faultReader{data: spec.StdinBytes(), chunk: spec.StdinChunk, failAt: spec.StdinFailAt, eofAt: spec.StdinEOFAt, k: k}
		_ = session.SetStdin(stdinReader)
		session.CanReadStdin = true
	} else {
		_ = session.SetStdin(nil)
		session.CanReadStdin = false
	}
	session.CanOutputToPipe = true

	retry := time.Duration(spec.RetryDelayNs)
	if retry <= 0 {
		retry = 10 * time.Millisecond
	}
	tx, err := query.NewTransaction(ctx, 10*time.Second, retry, session)
	if err != nil {
		res.ErrText = err.Error()
		res.ExitCode = 1
		return
	}
	proc := query.NewProcessor(tx)
	var runErr error
	func() {
		defer func() {
			if e := proc.AutoRollback(); e != nil {
				proc.LogError(e.Error())
			}
			if e := proc.ReleaseResourcesWithErrors(); e != nil {
				proc.LogError(e.Error())
			}
		}()

		if !k.sc.Knobs.RelRepo {
			// like the command line: a repository that does not exist (removed before
			// the process started) is an incorrect command usage, not "use the
			// working directory" (which all simulated runs of a worker share)
			if e := tx.SetFlag(option.RepositoryFlag, k.Dir); e != nil {
				runErr = query.NewIncorrectCommandUsageError(e.Error())
				return
			}
		}
		wt := spec.WaitTimeoutS
		if wt <= 0 {
			wt = 10
		}
		tx.UpdateWaitTimeout(wt, retry)
		cpu := spec.CPU
		if cpu < 1 {
			cpu = 1
		}
		_ = tx.SetFlag(option.CPUFlag, int64(cpu))
		_ = tx.SetFlag(option.QuietFlag, spec.Quiet)
		_ = tx.SetFlag(option.ColorFlag, false)
		if spec.Format != "" {
			if e := tx.SetFormatFlag(spec.Format, spec.OutFile); e != nil {
				runErr = e
				return
			}
		}
		for name, val := range spec.Flags {
			var v interface{} = val
			switch val {
			case "true":
				v = true
			case "false":
				v = false
			}
			if e := tx.SetFlag(name, v); e != nil {
				runErr = query.NewIncorrectCommandUsageError(e.Error())
				return
			}
		}

		if spec.Shell {
			runErr = k.shellLoop(ctx, proc, spec, p)
		} else {
			outfile := ""
			if spec.OutFile != "" {
				outfile = k.Dir + "/" + spec.OutFile
				if k.sc.Knobs.RelRepo {
					outfile = spec.OutFile // as typed on the command line, relative to the working directory
				}
			}
			runErr = action.Run(ctx, proc, spec.Program, "", outfile)
		}
		p.ending.Store(true)
		if p.cancelledByCtl() && ctx.Err() != nil {
			runErr = query.NewSignalReceived(syscall.SIGINT)
		}
	}()

	// cli.Exit mapping
	if runErr != nil {
		if ex, ok := runErr.(*query.ForcedExit); ok && ex.Code() == 0 {
			runErr = nil
		}
	}
	if runErr != nil {
		res.ErrText = k.Norm(runErr.Error())
		res.ErrType = reflect.TypeOf(runErr).String()
		res.ExitCode = 1
		if ae, ok := runErr.(query.Error); ok {
			res.ExitCode = ae.Code()
			res.IsQueryError = true
		}
		var fe *query.FatalError
		if errors.As(runErr, &fe) || strings.Contains(res.ErrText, "Fatal Error") {
			res.Fatal = true
		}
	}
}

func (p *Proc) cancelledByCtl() bool { return p.cancelled.Load() }

// shellLoop mimics the interactive shell: one Execute per statement text,
// AutoCommit off, an error does not end the session.
func (k *Kernel) shellLoop(ctx context.Context, proc *query.Processor, spec *ProcSpec, p *Proc) error {
	out := func(format string, args ...interface{}) {
		_ = proc.Tx.Session.WriteToStdout(fmt.Sprintf(format, args...))
	}
	for i, src := range spec.Statements {
		if ctx.Err() != nil {
			return query.ConvertContextError(ctx.Err())
		}
		stmts, _, e := parser.Parse(src, "", false, proc.Tx.Flags.AnsiQuotes)
		if e != nil {
			out("@PARSEERR %d %s\n", i, query.NewSyntaxError(e.(*parser.SyntaxError)).Error())
			continue
		}
		rep := 1
		if i < len(spec.Repeats) && spec.Repeats[i] > 1 {
			rep = spec.Repeats[i]
		}
		before := astString(stmts)
		for r := 0; r < rep; r++ {
			out("@S %d.%d\n", i, r)
			sctx, scancel := context.WithCancel(ctx)
			p.stmt.set(scancel)
			flow, e := proc.Execute(sctx, stmts)
			p.stmt.set(nil)
			scancel()
			if e != nil {
				if ex, ok := e.(*query.ForcedExit); ok {
					return ex
				}
				if ctx.Err() != nil {
					return e
				}
				out("@ERR %d.%d %s\n", i, r, strings.ReplaceAll(k.Norm(e.Error()), "\n", " | "))
				continue
			}
			if flow == query.Exit {
				return nil
			}
		}
		if u := unevenViews(proc); u != "" {
			out("@UNEVEN %d %s\n", i, u)
		}
		if after := astString(stmts); after != before {
			out("@ASTCHANGED %d\n  before: %s\n  after:  %s\n", i, before, after)
		}
	}
	out("@Z 0\n")
	return nil
}

// astString renders every printable clause of a statement list (the String()
// of each parser node that has one), without addresses, so that two calls can
// be compared.
func astString(v interface{}) string {
	var b strings.Builder
	func() {
		defer func() {
			if r := recover(); r != nil {
				fmt.Fprintf(&b, "<panic %v>", r)
			}
		}()
		astWalk(reflect.ValueOf(v), &b, 0)
	}()
	return b.String()
}

func astWalk(v reflect.Value, b *strings.Builder, depth int) {
	if !v.IsValid() || depth > 14 {
		return
	}
	if v.CanInterface() && v.Kind() != reflect.Slice {
		if (v.Kind() == reflect.Interface || v.Kind() == reflect.Ptr) && v.IsNil() {
			return
		}
		if s, ok := v.Interface().(fmt.Stringer); ok && strings.Contains(v.Type().PkgPath(), "csvq/lib/parser") {
			b.WriteString("{" + s.String() + "}")
			return
		}
	}
	switch v.Kind() {
	case reflect.Interface, reflect.Ptr:
		if !v.IsNil() {
			astWalk(v.Elem(), b, depth+1)
		}
	case reflect.Struct:
		b.WriteString(v.Type().Name() + "(")
		for i := 0; i < v.NumField(); i++ {
			if v.Type().Field(i).PkgPath != "" {
				continue // unexported
			}
			astWalk(v.Field(i), b, depth+1)
		}
		b.WriteString(")")
	case reflect.Slice, reflect.Array:
		for i := 0; i < v.Len(); i++ {
			astWalk(v.Index(i), b, depth+1)
			b.WriteString(";")
		}
	case reflect.String:
		b.WriteString(v.String())
	case reflect.Int, reflect.Int64, reflect.Int32:
		fmt.Fprintf(b, "%d", v.Int())
	case reflect.Bool:
		fmt.Fprintf(b, "%v", v.Bool())
	}
}

// unevenViews reports cached tables (files and stdin) holding a record whose
// number of fields differs from the header's.
func unevenViews(proc *query.Processor) string {
	var bad []string
	check := func(key, val interface{}) bool {
		v, ok := val.(*query.View)
		if !ok || v == nil {
			return true
		}
		for i, rec := range v.RecordSet {
			if len(rec) != v.Header.Len() {
				bad = append(bad, fmt.Sprintf("%v: record %d has %d fields, header has %d", key, i, len(rec), v.Header.Len()))
				break
			}
		}
		return true
	}
	proc.Tx.CachedViews.Range(check)
	// the stdin table lives in an unexported map of the session
	sv := reflect.ValueOf(proc.Tx.Session).Elem().FieldByName("stdinViewMap")
	if sv.IsValid() {
		vm := reflect.NewAt(sv.Type(), unsafe.Pointer(sv.UnsafeAddr())).Elem().Interface().(query.ViewMap)
		if !vm.IsEmpty() {
			vm.Range(check)
		}
	}
	return strings.Join(bad, "; ")
}
