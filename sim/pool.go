package sim

import (
	"bytes"
	"strconv"
	"sync"
	"time"
	"unsafe"

	"github.com/mithrandie/csvq/lib/query"
	"github.com/mithrandie/csvq/lib/value"
)

// SimPool replaces csvq's sync.Pools by a simulated allocator whose re-issue
// order is decided by the scenario. Every policy is a legal behaviour of
// sync.Pool except "poison", which never re-issues but overwrites released
// objects so that a use-after-release becomes visible.
type SimPool struct {
	policy               string
	rng                  *Rng
	mu                   sync.Mutex
	free                 map[string][]interface{}
	Gets, Puts, Reissued int
	DynGets, DynReissued int
}

func NewSimPool(policy string, seed uint64) *SimPool {
	if policy == "" {
		policy = "lifo"
	}
	return &SimPool{policy: policy, rng: NewRng(seed ^ 0x706f6f6c), free: map[string][]interface{}{}}
}

func newPooled(kind string) interface{} {
	switch kind {
	case "string":
		return new(value.String)
	case "integer":
		return new(value.Integer)
	case "float":
		return new(value.Float)
	case "datetime":
		return new(value.Datetime)
	case "blockscope":
		return query.NewBlockScope()
	case "nodescope":
		return query.NewNodeScope()
	case "keybuf":
		return &bytes.Buffer{}
	}
	return nil
}

func (k *Kernel) PoolGet(kind string) interface{} {
	p := k.pool
	if p.policy == "real" {
		return nil
	}
	p.mu.Lock()
	defer p.mu.Unlock()
	p.Gets++
	fl := p.free[kind]
	switch p.policy {
	case "lifo":
		if n := len(fl); n > 0 {
			v := fl[n-1]
			p.free[kind] = fl[:n-1]
			p.Reissued++
			return v
		}
	case "fifo":
		if n := len(fl); n > 0 {
			v := fl[0]
			p.free[kind] = fl[1:]
			p.Reissued++
			return v
		}
	case "random":
		if n := len(fl); n > 0 && p.rng.Bool(0.7) {
			i := p.rng.Intn(n)
			v := fl[i]
			fl[i] = fl[n-1]
			p.free[kind] = fl[:n-1]
			p.Reissued++
			return v
		}
	}
	return newPooled(kind)
}

var poisonTime = time.Date(1999, 9, 9, 9, 9, 9, 0, time.UTC)

func (k *Kernel) PoolPut(kind string, v interface{}) bool {
	p := k.pool
	if p.policy == "real" {
		return false
	}
	p.mu.Lock()
	defer p.mu.Unlock()
	p.Puts++
	switch p.policy {
	case "fresh":
		return true
	case "poison":
		switch x := v.(type) {
		case *value.String:
			*(*string)(unsafe.Pointer(x)) = "\x00POISON\x00"
		case *value.Integer:
			*(*int64)(unsafe.Pointer(x)) = -6148914691236517206
		case *value.Float:
			*(*float64)(unsafe.Pointer(x)) = -6.02214076e23
		case *value.Datetime:
			*(*time.Time)(unsafe.Pointer(x)) = poisonTime
		}
		return true
	}
	if len(p.free[kind]) < 4096 {
		p.free[kind] = append(p.free[kind], v)
	}
	return true
}

// DynPoolGet / DynPoolPut serve every sync.Pool of lib/query and lib/value that
// the build turned into a vhook.SPool (tools/autoyield -simpool): the join
// record pools, and whatever pool a change adds. The pool instance is the kind.
// handled == false leaves the call to the real sync.Pool (policy "real").
func (k *Kernel) DynPoolGet(id uint64) (interface{}, bool) {
	p := k.pool
	if p == nil || p.policy == "real" {
		return nil, false
	}
	kind := "dyn/" + strconv.FormatUint(id, 10)
	p.mu.Lock()
	defer p.mu.Unlock()
	p.Gets++
	p.DynGets++
	fl := p.free[kind]
	n := len(fl)
	if n == 0 {
		return nil, true
	}
	switch p.policy {
	case "lifo":
		v := fl[n-1]
		p.free[kind] = fl[:n-1]
		p.Reissued++
		p.DynReissued++
		return v, true
	case "fifo":
		v := fl[0]
		p.free[kind] = fl[1:]
		p.Reissued++
		p.DynReissued++
		return v, true
	case "random":
		if p.rng.Bool(0.7) {
			i := p.rng.Intn(n)
			v := fl[i]
			fl[i] = fl[n-1]
			p.free[kind] = fl[:n-1]
			p.Reissued++
			p.DynReissued++
			return v, true
		}
	}
	return nil, true
}

var poisonCell = query.NewCell(value.NewString("\x00POISON\x00"))

func (k *Kernel) DynPoolPut(id uint64, v interface{}) bool {
	p := k.pool
	if p == nil || p.policy == "real" {
		return false
	}
	kind := "dyn/" + strconv.FormatUint(id, 10)
	p.mu.Lock()
	defer p.mu.Unlock()
	p.Puts++
	switch p.policy {
	case "fresh":
		return true
	case "poison":
		if r, ok := v.(query.Record); ok {
			for i := range r {
				r[i] = poisonCell
			}
		}
		return true
	}
	if len(p.free[kind]) < 4096 {
		p.free[kind] = append(p.free[kind], v)
	}
	return true
}
