package sim

import (
	"encoding/json"
	"os"
	"time"
)

func mustJSON(v interface{}) string {
	b, err := json.Marshal(v)
	if err != nil {
		panic(err)
	}
	return string(b)
}

func mustUnJSON(s string, v interface{}) {
	if err := json.Unmarshal([]byte(s), v); err != nil {
		panic(err)
	}
}

func contains(l []string, s string) bool {
	for _, x := range l {
		if x == s {
			return true
		}
	}
	return false
}

// Governor for the tiers that run the real binary under strace: in some
// environments a traced process is slower by an order of magnitude, and the
// sampled share of scenarios then eats the whole budget of a batch. In batch
// mode these tiers may use at most a fixed share of the worker's wall time; a
// sample that would exceed it is skipped and counted (probe
// "strace-tier-skipped:time-share"). Replays, minimisation and the self-tests
// are never governed (what a case did must be done again).
var (
	govStart = time.Now()
	govSpent time.Duration
)

func straceTierAllowed(o *Outcome) bool {
	if m := os.Getenv("VERIF_MODE"); m != "" && m != "batch" {
		return true
	}
	if govSpent <= time.Duration(0.3*float64(time.Since(govStart)))+3*time.Second {
		return true
	}
	o.Stats.probe("strace-tier-skipped:time-share")
	return false
}

func straceTierTimed(f func()) {
	t0 := time.Now()
	f()
	govSpent += time.Since(t0)
}
