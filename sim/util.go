package sim

import "encoding/json"

func mustJSON(v interface{}) string {
	b, err := json.Marshal(v)
	if err != nil {
		panic(err)
	}
	return string(b)
}

func mustUnJSON(s string, v interface{}) {
	if err := json.Unmarshal([]byte(s), v); err != nil {
		panic(err)
	}
}

func contains(l []string, s string) bool {
	for _, x := range l {
		if x == s {
			return true
		}
	}
	return false
}
