package sim

import (
	"fmt"
	"os"
	"path/filepath"
	"strings"
	"testing"
)

// C20: within a transaction a loaded table is stable and shows its own changes.
//
// Every process runs a flat list of operations; the reference model below is
// the statement of the property itself:
//
//	none       --read-->            load (snapshot := file under the lock)   -> ro
//	none       --write/FOR UPDATE--> load                                     -> rw
//	ro         --read-->            print snapshot
//	ro         --write/FOR UPDATE--> reload (documented exception)            -> rw
//	rw         --read-->            print snapshot + own changes
//	any        --COMMIT/ROLLBACK--> none (ROLLBACK drops own changes)
//
// "file under the lock" is read by the controller at the process's
// h.acquired event, when everything else is parked and the process holds the
// table, so it is exactly what the process can have loaded.

type ObsOp struct {
	Kind  string `json:"kind"` // sel | selfu | ins | inc | commit | rollback
	Table int    `json:"table"`
	Key   int    `json:"key"`
	Form  int    `json:"form,omitempty"` // how the statement spells / uses the table (reads: 0 plain, 1 with extension, 2 self-join, 3 sub-query, 4 alias)
}

type c20Meta struct {
	Ops  [][]ObsOp `json:"ops"`
	Rows []int     `json:"rows"`
}

func renderObsProcs(sc *Scenario, meta *c20Meta) {
	for p := range sc.Procs {
		var s []string
		for i, op := range meta.Ops[p] {
			t := tableName(op.Table)
			switch op.Kind {
			case "sel":
				q := fmt.Sprintf("SELECT id, n FROM %s;", t)
				switch op.Form {
				case 1:
					q = fmt.Sprintf("SELECT id, n FROM `%s.csv`;", t)
				case 2:
					q = fmt.Sprintf("SELECT a.id, b.n FROM %s a JOIN %s b ON a.id = b.id;", t, t)
				case 3:
					q = fmt.Sprintf("SELECT id, n FROM %s WHERE id IN (SELECT id FROM `%s.csv`);", t, t)
				case 4:
					q = fmt.Sprintf("SELECT x.id, x.n FROM %s x WHERE x.id > 0;", t)
				}
				s = append(s, fmt.Sprintf("ECHO '@Q %d';", i), q)
			case "touch":
				// a read whose output is not compared (filtered, nested in a block, a function,
				// a cursor, another spelling of the path): for the model it is a plain read
				var q string
				switch op.Form {
				case 0:
					q = fmt.Sprintf("SELECT id, n FROM %s WHERE id > 1 ORDER BY n DESC, id;", t)
				case 1:
					q = fmt.Sprintf("IF TRUE THEN SELECT COUNT(*) FROM %s; END IF;", t)
				case 2:
					q = fmt.Sprintf("VAR @w%d := 0; WHILE @w%d < 2 DO SELECT MAX(n) FROM %s; @w%d := @w%d + 1; END WHILE;", i, i, t, i, i)
				case 3:
					q = fmt.Sprintf("DECLARE cnt%d FUNCTION () AS BEGIN RETURN (SELECT COUNT(*) FROM %s); END; PRINT cnt%d();", i, t, i)
				case 4:
					q = fmt.Sprintf("DECLARE cur%d CURSOR FOR SELECT id FROM %s; OPEN cur%d; VAR @c%d; FETCH cur%d INTO @c%d; CLOSE cur%d; DISPOSE CURSOR cur%d;", i, t, i, i, i, i, i, i)
				case 6:
					q = fmt.Sprintf("SELECT COUNT(*) FROM CSV(',', `%s.csv`);", t)
				case 7:
					q = fmt.Sprintf("SHOW FIELDS FROM %s;", t)
				case 8:
					q = fmt.Sprintf("SET @@WITHOUT_NULL TO FALSE; SELECT COUNT(*) FROM %s;", t)
				case 9:
					q = fmt.Sprintf("VAR @v%d := (SELECT MAX(n) FROM %s); SELECT 1 FROM %s LIMIT 1;", i, t, t)
				case 10:
					q = fmt.Sprintf("SELECT COUNT(*) FROM %s; SHOW TABLES;", t)
				case 11:
					q = fmt.Sprintf("SET @@CPU TO 2; SELECT COUNT(*) FROM %s; ADD '%%Y' TO @@DATETIME_FORMAT;", t)
				case 12:
					// the table is only the source of a statement that changes another table
					// (a temporary one, or a file nobody else uses): still a plain read
					q = fmt.Sprintf("DECLARE sink%d VIEW (id, n); INSERT INTO sink%d SELECT id, n FROM %s;", i, i, t)
				case 13:
					q = fmt.Sprintf("INSERT INTO priv%d SELECT id + %d, n FROM %s;", p, 1000*(i+1), t)
				case 14:
					q = fmt.Sprintf("REPLACE INTO priv%d (id, n) USING (id) SELECT id, n FROM %s;", p, t)
				case 15:
					q = fmt.Sprintf("UPDATE priv%d SET n = (SELECT MAX(n) FROM %s);", p, t)
				case 16:
					q = fmt.Sprintf("DELETE FROM priv%d WHERE id IN (SELECT id + 5000 FROM %s);", p, t)
				case 17:
					q = fmt.Sprintf("CREATE TABLE `made%d_%d.csv` (id, n) AS SELECT id, n FROM %s;", p, i, t)
				case 18:
					// reads issued by statements that run other statements
					q = fmt.Sprintf("EXECUTE 'SELECT COUNT(*) FROM %s';", t)
				case 19:
					q = fmt.Sprintf("SOURCE `rd_%s.sql`;", t)
				default:
					q = fmt.Sprintf("SELECT COUNT(*) FROM `./%s.csv`;", t)
				}
				s = append(s, fmt.Sprintf("ECHO '@U %d';", i), q)
			case "pass":
				// statements that touch no table: for the model nothing happens (in particular the
				// transaction neither ends nor forgets what it has loaded)
				var q string
				switch op.Form {
				case 0:
					q = "EXECUTE 'PRINT 1';"
				case 1:
					q = "SOURCE `pass.sql`;"
				case 2:
					q = "EXECUTE 'PRINT %s; PRINT 2;' USING 5;"
				case 3:
					q = fmt.Sprintf("PREPARE pp%d FROM 'PRINT 1'; EXECUTE pp%d; DISPOSE PREPARE pp%d;", i, i, i)
				case 4:
					q = "IF TRUE THEN PRINT 2; END IF; WHILE FALSE DO PRINT 3; END WHILE;"
				case 5:
					q = fmt.Sprintf("DECLARE pf%d FUNCTION () AS BEGIN RETURN 1; END; PRINT pf%d(); DISPOSE FUNCTION pf%d;", i, i, i)
				case 6:
					q = "SET @@LIMIT_RECURSION TO 100; SHOW @@LIMIT_RECURSION;"
				case 7:
					q = "SELECT 1 + 1; SELECT 2 FROM DUAL;"
				case 8:
					q = "EXECUTE 'SOURCE `pass.sql`';"
				case 10:
					// session flags that say how files are read change (none of them matters for these tables):
					// what the transaction has loaded stays what it is
					q = "SET @@WITHOUT_NULL TO TRUE;"
				case 11:
					q = "SET @@ALLOW_UNEVEN_FIELDS TO TRUE;"
				case 12:
					q = "SET @@JSON_QUERY TO 'q';"
				case 13:
					q = "SET @@ENCODING TO UTF8;"
				case 14:
					q = "SET @@WITHOUT_NULL TO TRUE; SET @@WITHOUT_NULL TO FALSE;"
				case 15:
					q = "SET @@STATS TO FALSE; SET @@LIMIT_RECURSION TO 500; SET @@ANSI_QUOTES TO FALSE; SET @@STRICT_EQUAL TO FALSE;"
				case 16:
					q = "SET @@ALLOW_UNEVEN_FIELDS TO TRUE; SET @@JSON_QUERY TO ''; SET @@ENCODING TO AUTO;"
				default:
					q = "PRINTF '%s' USING 1; ECHO 'x';"
				}
				s = append(s, fmt.Sprintf("ECHO '@U %d';", i), q)
			case "selfu":
				if op.Form == 1 {
					// the table is the joined (second) table of the FOR UPDATE query
					s = append(s, fmt.Sprintf("ECHO '@Q %d';", i), fmt.Sprintf("SELECT x.id, x.n FROM one y JOIN %s x ON y.k = 1 FOR UPDATE;", t))
				} else {
					s = append(s, fmt.Sprintf("ECHO '@Q %d';", i), fmt.Sprintf("SELECT id, n FROM %s FOR UPDATE;", t))
				}
			case "ins":
				tt := t
				if op.Form == 1 {
					tt = "`" + t + ".csv`"
				}
				s = append(s, fmt.Sprintf("ECHO '@W %d';", i), fmt.Sprintf("INSERT INTO %s VALUES (%d, 0);", tt, op.Key))
			case "noop":
				// a data-changing statement that matches no record: for the model a write
				// access (the table is held for update from here) without any change
				q := fmt.Sprintf("UPDATE %s SET n = n + 1 WHERE id = 99999;", t)
				switch op.Form {
				case 1:
					q = fmt.Sprintf("DELETE FROM %s WHERE id = 99999;", t)
				case 2:
					// ALTER TABLE ... SET to the value the attribute already has: a data-changing access that changes nothing
					q = fmt.Sprintf("ALTER TABLE %s SET HEADER TO TRUE;", t)
				case 3:
					q = fmt.Sprintf("ALTER TABLE %s SET ENCLOSE_ALL TO FALSE;", t)
				case 4:
					q = fmt.Sprintf("ALTER TABLE %s SET LINE_BREAK TO LF;", t)
				case 5:
					// FOR UPDATE holds every table the statement reads, whichever side of a set operator names it
					q = fmt.Sprintf("SELECT k, k FROM one EXCEPT SELECT id, n FROM %s FOR UPDATE;", t)
				case 6:
					q = fmt.Sprintf("SELECT id, n FROM %s WHERE id < 0 UNION SELECT id, n FROM %s FOR UPDATE;", t, t)
				case 7:
					q = fmt.Sprintf("SELECT k, k FROM one INTERSECT ALL SELECT id, n FROM %s FOR UPDATE;", t)
				case 8:
					// ... and however the table is spelled (a file: URL is a local file)
					q = fmt.Sprintf("SELECT COUNT(*) FROM file:./%s.csv FOR UPDATE;", t)
				}
				s = append(s, fmt.Sprintf("ECHO '@W %d';", i), q)
			case "fail":
				// (sessions driven like the interactive shell only) a data-changing statement that fails after it
				// has taken the table: for the model a data-changing access that changes nothing
				q := []string{
					fmt.Sprintf("UPDATE %s SET n = 1 / 0;", t),
					fmt.Sprintf("UPDATE %s SET nosuchcolumn = 1;", t),
					fmt.Sprintf("DELETE FROM %s WHERE nosuchcolumn = 1;", t),
					fmt.Sprintf("INSERT INTO %s VALUES (1, 2, 3);", t),
					fmt.Sprintf("REPLACE INTO %s (id, n) USING (id) VALUES (1, 2, 3);", t),
				}[op.Form%5]
				s = append(s, fmt.Sprintf("ECHO '@W %d';", i), q)
			case "inc":
				tt := t
				if op.Form == 1 {
					tt = "`" + t + ".csv`"
				}
				s = append(s, fmt.Sprintf("ECHO '@W %d';", i), fmt.Sprintf("UPDATE %s SET n = n + 1 WHERE id = %d;", tt, op.Key))
			case "commit":
				s = append(s, fmt.Sprintf("ECHO '@C %d';", i), "COMMIT;")
			case "rollback":
				s = append(s, fmt.Sprintf("ECHO '@C %d';", i), "ROLLBACK;")
			}
		}
		s = append(s, "ECHO '@Z 0';")
		sc.Procs[p].Program = strings.Join(s, "\n")
		if sc.Procs[p].Shell {
			sc.Procs[p].Statements = s
		}
	}
	sc.Meta = map[string]string{"workload": mustJSON(meta)}
}

type c20 struct{}

func init() { Register(c20{}) }

func (c20) Prop() string { return "C20" }

func (c20) Gen(seed uint64, tier string) *Scenario {
	r := Sub(seed, "workload")
	meta := &c20Meta{}
	sc := &Scenario{Prop: "C20"}
	ntab := r.Pick(1, 1, 2)
	for i := 0; i < ntab; i++ {
		rows := r.Range(1, 3)
		meta.Rows = append(meta.Rows, rows)
		sc.Files = append(sc.Files, FileSpec{Name: tableName(i) + ".csv", Content: counterTable(rows)})
	}
	sc.Files = append(sc.Files, FileSpec{Name: "one.csv", Content: "k\n1\n"}) // first table of the join form of FOR UPDATE
	sc.Files = append(sc.Files, FileSpec{Name: "pass.sql", Content: "PRINT 'sourced';\n"})
	for i := 0; i < ntab; i++ {
		sc.Files = append(sc.Files, FileSpec{Name: fmt.Sprintf("rd_t%d.sql", i), Content: fmt.Sprintf("SELECT COUNT(*) FROM t%d;\n", i)})
	}
	nobs := r.Pick(1, 1, 2)
	nwr := r.Range(1, 2)
	for p := 0; p < nobs; p++ {
		// a table only observer p uses: target of statements that take their rows from the shared tables
		sc.Files = append(sc.Files, FileSpec{Name: fmt.Sprintf("priv%d.csv", p), Content: "id,n\n1,0\n2,0\n"})
	}
	uniq := 1000
	// a third of the scenarios: each observer reads one of the tables only through a
	// symbolic link (and never writes it): csvq keeps the view under the name given,
	// so the link is a table of its own for the model, whose file is the target's
	rl := Sub(seed, "c20-links")
	useLinks := rl.Bool(0.33)
	if useLinks {
		for i := 0; i < ntab; i++ {
			sc.Files = append(sc.Files, FileSpec{Name: fmt.Sprintf("l%d.csv", i), LinkTo: fmt.Sprintf("t%d.csv", i)})
		}
	}
	for p := 0; p < nobs+nwr; p++ {
		var ops []ObsOp
		shell := false
		if rsh := Sub(seed, fmt.Sprintf("c20-shell-%d", p)); p < nobs && !useLinks && rsh.Bool(0.3) {
			// this observer is a session driven like the interactive shell: a statement that fails does not
			// end it (nor the transaction)
			shell = true
		}
		if p < nobs {
			n := r.Range(3, 9)
			linkTab := -1
			if useLinks {
				linkTab = rl.Intn(ntab)
			}
			for i := 0; i < n; i++ {
				tb := r.Intn(ntab)
				if tb == linkTab {
					if rl.Bool(0.7) {
						ops = append(ops, ObsOp{Kind: "sel", Table: tb + 10, Form: rl.Pick(0, 0, 0, 1, 2, 3, 4)})
					} else {
						ops = append(ops, ObsOp{Kind: "touch", Table: tb + 10, Form: rl.Pick(0, 1, 2, 3, 4, 5, 6, 7, 9, 10, 12, 13, 14, 15)})
					}
					continue
				}
				if shell && Sub(seed, fmt.Sprintf("c20-fail-%d-%d", p, i)).Bool(0.2) {
					ops = append(ops, ObsOp{Kind: "fail", Table: tb, Form: r.Intn(5)})
					continue
				}
				switch r.Intn(11) {
				case 10:
					ops = append(ops, ObsOp{Kind: "pass", Form: r.Intn(17)})
				case 0, 1, 2:
					ops = append(ops, ObsOp{Kind: "sel", Table: tb, Form: r.Pick(0, 0, 0, 1, 2, 3, 4)})
				case 3:
					if r.Bool(0.7) {
						ops = append(ops, ObsOp{Kind: "touch", Table: tb, Form: r.Pick(0, 1, 2, 3, 4, 5, 6, 7, 8, 9, 10, 11, 12, 13, 14, 15, 16, 17, 13, 14, 18, 19)})
					} else {
						ops = append(ops, ObsOp{Kind: "noop", Table: tb, Form: r.Intn(9)})
					}
				case 4:
					ops = append(ops, ObsOp{Kind: "selfu", Table: tb, Form: r.Pick(0, 0, 1)})
				case 5:
					uniq++
					ops = append(ops, ObsOp{Kind: "ins", Table: tb, Key: uniq, Form: r.Pick(0, 0, 1)})
				case 6:
					ops = append(ops, ObsOp{Kind: "inc", Table: tb, Key: r.Range(1, meta.Rows[tb]), Form: r.Pick(0, 0, 1)})
				case 7, 8:
					ops = append(ops, ObsOp{Kind: "commit"})
				default:
					ops = append(ops, ObsOp{Kind: "rollback"})
				}
			}
			if last := r.Intn(ntab); last == linkTab {
				ops = append(ops, ObsOp{Kind: "sel", Table: last + 10})
			} else {
				ops = append(ops, ObsOp{Kind: "sel", Table: last})
			}
		} else {
			n := r.Range(1, 3)
			for i := 0; i < n; i++ {
				tb := r.Intn(ntab)
				if r.Bool(0.6) {
					uniq++
					ops = append(ops, ObsOp{Kind: "ins", Table: tb, Key: uniq})
				} else {
					ops = append(ops, ObsOp{Kind: "inc", Table: tb, Key: r.Range(1, meta.Rows[tb])})
				}
				if r.Bool(0.3) {
					ops = append(ops, ObsOp{Kind: "sel", Table: tb})
				}
				ops = append(ops, ObsOp{Kind: "commit"})
			}
		}
		meta.Ops = append(meta.Ops, ops)
		w := wtChoices[2+r.Intn(3)]
		sc.Procs = append(sc.Procs, ProcSpec{CPU: 1, WaitTimeoutS: w.wt + float64(137*(p+1))*1e-9, RetryDelayNs: w.retry + int64(1009*(p+1)+2*p*p), Format: "CSV", Quiet: true, Shell: shell})
	}
	renderObsProcs(sc, meta)
	sc.Knobs = Knobs{RowStride: r.Pick(1, 4, 64), Pool: "lifo"}
	for _, p := range sc.Procs {
		if strings.Contains(p.Program, "SOURCE `") {
			// SOURCE resolves its file relative to the working directory: these scenarios
			// run without --repository, inside the run directory
			sc.Knobs.RelRepo = true
		}
	}
	sc.Sched = GenSched(seed, len(sc.Procs), 150*len(sc.Procs))
	sc.MaxSteps = 40000
	return sc
}

func (c20) Shrinks(c *Case) []*Case {
	var meta c20Meta
	mustUnJSON(c.Scenario.Meta["workload"], &meta)
	var out []*Case
	for p := range meta.Ops {
		if len(meta.Ops) > 1 {
			cand := cloneCase(c)
			var m c20Meta
			mustUnJSON(cand.Scenario.Meta["workload"], &m)
			m.Ops = append(m.Ops[:p:p], m.Ops[p+1:]...)
			cand.Scenario.Procs = append(cand.Scenario.Procs[:p:p], cand.Scenario.Procs[p+1:]...)
			if cand.Scenario.Sched.DelayProc >= len(cand.Scenario.Procs) {
				cand.Scenario.Sched.DelayProc = 0
			}
			renderObsProcs(cand.Scenario, &m)
			out = append(out, cand)
		}
		for i := len(meta.Ops[p]) - 1; i >= 0; i-- {
			if len(meta.Ops[p]) < 2 {
				break
			}
			cand := cloneCase(c)
			var m c20Meta
			mustUnJSON(cand.Scenario.Meta["workload"], &m)
			m.Ops[p] = append(m.Ops[p][:i:i], m.Ops[p][i+1:]...)
			renderObsProcs(cand.Scenario, &m)
			out = append(out, cand)
		}
	}
	return out
}

// loadObserver records, per process and table, the file contents at each
// h.acquired event (what the process can have loaded).
type loadObserver struct {
	loads map[string][]string // "p/table" -> canonical contents, in order
	modes map[string][]byte
}

func newLoadObserver() *loadObserver {
	return &loadObserver{loads: map[string][]string{}, modes: map[string][]byte{}}
}

func (l *loadObserver) OnArrival(k *Kernel, g *G, a *arrival) {
	if a.point != "h.acquired" || a.arg[0] == 'N' || a.arg[0] == 'C' {
		return
	}
	path := a.arg[2:]
	if rp, err := filepath.EvalSymlinks(path); err == nil {
		path = rp // loads through a symbolic link are booked under the file they reach
	}
	b, err := os.ReadFile(path)
	content := "<unreadable>"
	if err == nil {
		content, _ = canonTable(strings.Split(strings.TrimRight(string(b), "\n"), "\n"))
	}
	key := fmt.Sprintf("%d/%s", g.proc.idx, strings.TrimSuffix(filepath.Base(path), ".csv"))
	l.loads[key] = append(l.loads[key], content)
	l.modes[key] = append(l.modes[key], a.arg[0])
}

func (c20) Eval(t *testing.T, c *Case, dec func(int) *Decider) *Outcome {
	sc := c.Scenario
	var meta c20Meta
	mustUnJSON(sc.Meta["workload"], &meta)
	o := &Outcome{}
	lo := newLoadObserver()
	res, _ := Execute(t, sc, dec(0), lo)
	o.Runs = 1
	o.addStats(res.Stats)
	o.LogHash, o.TraceHash = res.LogHash, res.TraceHash
	o.NonTrivial = res.Stats.Switches > len(sc.Procs)
	o.Trace = tail(res.Log, 400)
	o.Sample = map[string]interface{}{"seed": c.Seed, "procs": programs(sc), "strategy": sc.Sched.Strategy, "steps": res.Stats.Steps, "outputs": outputs(res)}
	const prop = "C20"
	if res.Hang != "" || res.LimitHit || res.BubbleErr != "" {
		o.viol(prop, "liveness", "hang", "run did not terminate: "+res.Hang+res.BubbleErr)
		return o
	}
	for pi, p := range res.Procs {
		if p.Panic != "" {
			o.viol(prop, "panic", "panic", p.Panic)
			continue
		}
		// what was printed, by op index
		printed := map[int]string{}
		reached := map[int]bool{}
		finished := false
		opErr := map[int]string{} // shell sessions: the statement of op i returned an error (the session goes on)
		cur := -1
		for _, s := range parseSectionsFlat(p) {
			if s.marker == "ERR" || s.marker == "PARSEERR" {
				if cur >= 0 {
					opErr[cur] = "error"
					for _, st := range p.Stamps {
						if strings.Contains(st.Text, "@ERR") && (strings.Contains(st.Text, "timeout") || strings.Contains(st.Text, "deadline exceeded") || strings.Contains(st.Text, "lock")) {
							opErr[cur] = "lock" // (coarse: any lock error of the session)
						}
					}
				}
				continue
			}
			cur = s.txn
			reached[s.txn] = true
			if s.marker == "Q" && len(s.body) > 0 {
				ct, ok := canonTable(s.body)
				if !ok {
					o.viol(prop, "read", "garbled-result", fmt.Sprintf("p%d op %d printed %q", pi, s.txn, ct))
				}
				printed[s.txn] = ct
			}
			if s.marker == "Z" {
				finished = true
			}
		}
		if !finished && p.ExitCode == 0 {
			o.viol(prop, "read", "truncated-output", fmt.Sprintf("p%d exited 0 without finishing its program", pi))
		}
		if hookMissing("h.acquired") {
			// Without load events the snapshot a transaction works on is unknown.
			// What remains decidable from the output alone: two reads of a table in
			// one transaction with no write access of its own to that table in
			// between print the same.
			o.Stats.probe("oracle-fallback:consecutive-reads")
			lastRead := map[int]string{}
			held := map[int]bool{}
			for i, op := range meta.Ops[pi] {
				if !reached[i] {
					break
				}
				switch op.Kind {
				case "commit", "rollback":
					lastRead, held = map[int]string{}, map[int]bool{}
				case "ins", "inc", "noop", "fail":
					delete(lastRead, op.Table)
					held[op.Table] = true
				case "sel", "selfu":
					got, ok := printed[i]
					if !ok {
						continue
					}
					if op.Kind == "selfu" && !held[op.Table] {
						// the first access for update re-reads the file under the lock
						held[op.Table] = true
						delete(lastRead, op.Table)
					}
					if prev, had := lastRead[op.Table]; had && prev != got {
						o.viol(prop, "stable-read", "unstable-read:consecutive", fmt.Sprintf("p%d op %d: two reads of %s inside one transaction without a write of its own in between differ: %q then %q", pi, i, tableName(op.Table), prev, got))
					}
					lastRead[op.Table] = got
				}
			}
			continue
		}
		// walk the model
		type tstate struct {
			mode    string // "", "ro", "rw"
			snap    string
			changes []ObsOp
		}
		st := map[int]*tstate{}
		next := map[int]int{} // per table: index of the next load snapshot to consume
		get := func(tb int) *tstate {
			if st[tb] == nil {
				st[tb] = &tstate{}
			}
			return st[tb]
		}
		load := func(tb, i int, why string) (string, bool) {
			key := fmt.Sprintf("%d/%s", pi, tableName(tb%10))
			l := lo.loads[key]
			if next[tb] >= len(l) {
				return "", false
			}
			s := l[next[tb]]
			next[tb]++
			return s, true
		}
		view := func(ts *tstate) string {
			v := ts.snap
			for _, ch := range ts.changes {
				v = applyDelta(v, ch.Kind, ch.Key)
			}
			return v
		}
	ops:
		for i, op := range meta.Ops[pi] {
			if !reached[i] {
				break
			}
			_, executed := printed[i]
			last := !reached[i+1] && !finished // the process ended inside this op (error / timeout)
			if e, bad := opErr[i]; bad && (op.Kind != "fail" || e == "lock") {
				// a shell session goes on after a statement that failed for a reason the scenario did not plan
				// (a lock wait that timed out): what the transaction holds from here on is not modelled
				o.Stats.probe("shell-session-unplanned-error:judged-up-to-there")
				break ops
			}
			if op.Kind == "fail" {
				if _, bad := opErr[i]; !bad && !last {
					o.viol(prop, "scenario", "scenario-error:failing-statement-succeeded", fmt.Sprintf("p%d op %d: a statement built to fail returned no error", pi, i))
				}
				o.Stats.probe("failed-statement-in-transaction")
			}
			switch op.Kind {
			case "commit", "rollback":
				if last {
					break ops
				}
				for _, ts := range st {
					ts.mode, ts.changes = "", nil
				}
			case "sel", "touch", "selfu", "ins", "inc", "noop", "fail":
				ts := get(op.Table)
				write := op.Kind != "sel" && op.Kind != "touch"
				if ts.mode == "" || (ts.mode == "ro" && write) {
					if ts.mode == "ro" {
						o.Stats.probe("reload-at-first-write")
					}
					s, ok := load(op.Table, i, op.Kind)
					if !ok {
						if last {
							break ops // failed while acquiring: nothing was loaded
						}
						o.viol(prop, "load", "load-missing:"+op.Kind+"-in-"+ts.mode,
							fmt.Sprintf("p%d op %d (%s on %s): the transaction had %s, so the table must be (re)loaded from the file here, but no file access happened", pi, i, op.Kind, tableName(op.Table), describeMode(ts.mode)))
						break ops
					}
					ts.snap, ts.changes = s, nil
					if op.Table >= 10 {
						// Through a symbolic link the lock files are created next to the link, so
						// the lock-file protocol does not order this process with writers that use
						// the real path (only flock does, on whatever inode was opened): what was
						// loaded is not necessarily the file as it is now. The first read that is
						// printed defines the snapshot; stability is still demanded.
						ts.snap = "?"
					}
					if write {
						ts.mode = "rw"
					} else {
						ts.mode = "ro"
					}
				} else if ts.mode == "ro" {
					o.Stats.probe("repeated-read-from-cache")
				}
				if op.Kind == "touch" || op.Kind == "noop" || op.Kind == "fail" {
					if last {
						break ops
					}
					continue
				}
				if last && !executed {
					break ops
				}
				if op.Kind == "ins" || op.Kind == "inc" {
					ts.changes = append(ts.changes, op)
				} else if executed && ts.snap == "?" {
					ts.snap = printed[i]
					o.Stats.probe("link-snapshot-from-first-read")
				} else if executed {
					if want := view(ts); printed[i] != want {
						o.viol(prop, "read", "unstable-read:"+op.Kind+"-in-"+ts.mode,
							fmt.Sprintf("p%d op %d (%s on %s) printed %q; the data loaded in this transaction plus its own changes is %q (%d own change(s))", pi, i, op.Kind, tableName(op.Table), printed[i], want, len(ts.changes)))
					} else if len(ts.changes) > 0 {
						o.Stats.probe("own-changes-visible")
					}
				}
			}
		}
	}
	return o
}

func describeMode(m string) string {
	switch m {
	case "":
		return "no cached copy (start, or after COMMIT/ROLLBACK)"
	case "ro":
		return "only a copy loaded by a plain SELECT"
	}
	return "a copy loaded for update"
}

// parseSectionsFlat: markers "@X i" with a single index.
func parseSectionsFlat(res *ProcResult) []section { return parseSections(res) }
