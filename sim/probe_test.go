package sim

import (
	"fmt"
	"os"
	"testing"
)

func TestMain(m *testing.M) {
	setupBase()
	code := m.Run()
	cleanupBase()
	os.Exit(code)
}

func TestProbeKernel(t *testing.T) {
	sc := &Scenario{
		Prop:  "C09",
		Files: []FileSpec{{Name: "t.csv", Content: "id,n\n1,0\n2,0\n"}},
		Procs: []ProcSpec{
			{Program: "UPDATE t SET n = n + 1 WHERE id = 1; SELECT * FROM t;", CPU: 1, WaitTimeoutS: 10.0000001, RetryDelayNs: 10001009, Format: "CSV"},
			{Program: "UPDATE t SET n = n + 1 WHERE id = 1; SELECT * FROM t;", CPU: 1, WaitTimeoutS: 10.0000003, RetryDelayNs: 10002003, Format: "CSV"},
			{Program: "SELECT * FROM t;", CPU: 1, WaitTimeoutS: 10.0000007, RetryDelayNs: 10003001, Format: "CSV"},
		},
		Knobs: Knobs{RowStride: 1, Pool: "lifo"},
	}
	for seed := uint64(1); seed <= 3; seed++ {
		sc.Sched = GenSched(seed, 3, 200)
		res, _ := Execute(t, sc, NewRecorder(seed))
		fmt.Printf("seed %d strat=%s steps=%d hash=%s hang=%q bubble=%q final=%v\n", seed, sc.Sched.Strategy, res.Stats.Steps, res.LogHash, res.Hang, res.BubbleErr, res.Final)
		for i, p := range res.Procs {
			fmt.Printf("  p%d exit=%d err=%q out=%q stderr=%q\n", i, p.ExitCode, p.ErrText, p.Stdout, p.Stderr)
		}
		if seed == 1 {
			for _, l := range res.Log {
				fmt.Println("   ", l)
			}
		}
		res2, _ := Execute(t, sc, NewReplayer(res.Decisions))
		fmt.Printf("  replay hash=%s same=%v\n", res2.LogHash, res2.LogHash == res.LogHash)
	}
}
